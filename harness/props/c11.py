"""C11 - cholesky and plu return structured factors that reproduce the operator (DESIGN.md section 5, C11)."""
import re
import warnings
import numpy as np
import shim  # noqa: F401
import trees as T
import core
import c06_lib as L

TRUSTED_BASE = [
    "Coq 8.16.1 kernel + vm_compute; theorems of coq/PropsC11.v closed under the global context, over any commutative ring with involution",
    "hand-written model coq/C11_Decomp.v of cholesky/plu in cola/linalg/decompositions/decompositions.py (+ the Diagonal/ScalarMul rules of cola.linalg.sqrt), "
    "tied to /repo by this correspondence check (result classes exactly, factor matrices within 1e-8 of the exact rational reference or 1e-9 of numpy)",
    "LAPACK (numpy.linalg.cholesky, scipy.linalg.lu) and the element-wise square root are oracles: Section variables whose specifications are hypotheses of the theorems; "
    "their recorded results are checked numerically on every run",
    "harness: c06_lib.py (builder, reflection of cola objects into trees, LAPACK call recorder, exact rational LU, Coq printers), trees.py, shim.py",
]
ASSUMPTIONS = [
    "Tier Q: Gaussian-integer payloads; Cholesky inputs A = L0 L0^H with integer L0 so numpy's factor is exact; LU compared against the exact rational factors for LAPACK's pivot order; "
    "Tier F (1e-9 relative, numpy oracle) where a factor is irrational",
    "cholesky is only called on positive definite trees, plu on non-singular ones (cond_2 <= 1e3, n <= 12)",
]
HEADER = ("From Coq Require Import ZArith QArith Qcanon List Bool Arith.\nFrom Core Require Import Base Kron Op Algebra FieldBase C06_Exec C11_Decomp C11_Exec.\n"
          "Import ListNotations.\nOpen Scope nat_scope.\n")


def api():
    from cola.linalg.decompositions.decompositions import cholesky, plu
    return cholesky, plu


def findings():
    import cola
    from cola import ops
    cholesky, plu = api()
    out = []

    def probe(flag, what, fn, witness):
        try:
            with warnings.catch_warnings():
                warnings.simplefilter("ignore")
                present, got = fn()
        except Exception as e:
            present, got = True, f"raised {type(e).__name__}: {str(e)[:160]}"
        out.append(dict(flag=flag, present=bool(present), what=what, witness=witness, got=str(got)))

    def back(P, Lo, U):
        return np.asarray(P.to_dense()) @ np.asarray(Lo.to_dense()) @ np.asarray(U.to_dense())

    def plu_neg():
        P, Lo, U = plu(ops.Diagonal(np.array([-4., 9.])))
        M = back(P, Lo, U)
        P2, L2, U2 = plu(ops.ScalarMul(-4., (2, 2), np.float64))
        M2 = back(P2, L2, U2)
        return not (np.allclose(M, np.diag([-4., 9.])) and np.allclose(M2, -4 * np.eye(2))), f"P L U = {M.tolist()} ; ScalarMul(-4): {M2.tolist()}"
    probe("plu_diagonal_negative_nan", "plu(Diagonal | ScalarMul) returns (I, sqrt(A), sqrt(A)): NaN factors for a negative entry of a real operator", plu_neg,
          "plu(Diagonal([-4., 9.])) and plu(ScalarMul(-4., (2,2)))")

    def plu_cplx():
        d = np.array([2j, -4 + 0j, 1 - 1j])
        P, Lo, U = plu(ops.Diagonal(d))
        M = back(P, Lo, U)
        return not np.allclose(M, np.diag(d)), np.abs(M - np.diag(d)).max()
    probe("plu_diag_complex", "plu(Diagonal) of a complex diagonal does not reproduce the operator", plu_cplx, "plu(Diagonal([2j, -4, 1-1j]))")

    def chol_kron():
        S = np.array([[4., 2.], [2., 5.]])
        Lo = cholesky(ops.Kronecker(ops.Dense(-S), ops.Dense(-S)))
        Ld = np.asarray(Lo.to_dense())
        return not np.allclose(Ld @ Ld.T, np.kron(S, S)), np.abs(Ld @ Ld.T - np.kron(S, S)).max()
    probe("chol_kron_indefinite_factors", "cholesky(Kronecker) factorises factor by factor: a positive definite Kronecker product of two negative definite factors raises LinAlgError "
          "(NaN for Diagonal factors)", chol_kron, "cholesky(Kronecker(Dense(-S), Dense(-S))), S=[[4,2],[2,5]]")
    return out


class Gen11:
    def __init__(self, rnd, present):
        self.r, self.present = rnd, set(present)
        self.g = L.GenInv(rnd, present)

    def sizes(self, n):
        """2-3 Kronecker factor sizes with product n (unequal when possible)"""
        r = self.r
        divs = [a for a in range(1, n + 1) if n % a == 0]
        a = r.choice(divs)
        rest = n // a
        s = [a, rest]
        sub = [b for b in range(2, rest) if rest % b == 0]
        if sub and r.random() < 0.5:
            b = r.choice(sub)
            s = [a, b, rest // b]
        r.shuffle(s)
        return s

    def parts(self, n):
        r = self.r
        parts, left = [], n
        while left > 0:
            s = r.randint(1, min(left, 3))
            mu = r.randint(1, max(1, min(3, left // s)))
            parts.append((s, mu))
            left -= s * mu
        return parts

    def pd(self, n, depth, cplx):
        """positive definite tree over Dense / Identity / Diagonal / ScalarMul / Kronecker / BlockDiag (+ a few kinds that take the dense path)"""
        r, g = self.r, self.g
        dt = g.dt(cplx)
        if depth <= 0 or r.random() < 0.25:
            k = r.choice(["Dense", "Dense", "Dense", "Diag", "Scal", "Ident", "other", "DiagG", "DiagG", "ScalG", "DenseG"])
            if k == "DenseG":   # badly scaled positive definite matrix S (L0 L0^H) S with S = diag(2^k): all entries and the factor S L0 are exact
                Lo = g.lower(n, cplx, posdiag=True)
                S = np.diag([np.sqrt(float(v[0])) for v in g.graded(n, True)])
                return dict(k="Dense", dt=dt, a=g.gmat(S @ Lo @ Lo.conj().T @ S), g=True)
            if k == "DiagG":   # widely graded positive diagonal (powers of 4: exact square roots in every float format)
                return dict(k="Diag", dt=dt, d=g.graded(n, True))
            if k == "ScalG":
                return dict(k="Scal", dt=dt, c=g.graded(1, True)[0], n=n)
            if k == "Dense":
                Lo = g.lower(n, cplx, posdiag=True)
                return dict(k="Dense", dt=dt, a=g.gmat(Lo @ Lo.conj().T))
            if k == "Diag":
                return dict(k="Diag", dt=dt, d=[[r.choice([1, 4, 9, 16, 2, 3]), 0] for _ in range(n)])
            if k == "Scal":
                return dict(k="Scal", dt=dt, c=[r.choice([1, 4, 9, 2]), 0], n=n)
            if k == "Ident":
                return dict(k="Ident", dt=dt, n=n)
            return g.psd_tree(n, 1, cplx, decl=r.random() < 0.5)
        k = r.choice(["Kron", "Kron", "BDiag", "BDiag"]) if n >= 2 else "BDiag"
        if k == "Kron":
            return dict(k="Kron", ms=[self.pd(s, depth - 1, cplx) for s in self.sizes(n)])
        ps = self.parts(n)
        return dict(k="BDiag", ms=[self.pd(s, depth - 1, cplx) for s, _ in ps], mu=[m for _, m in ps])

    def ns(self, n, depth, cplx):
        """non-singular tree"""
        r, g = self.r, self.g
        dt = g.dt(cplx)
        neg_ok = cplx or "plu_diagonal_negative_nan" not in self.present
        if depth <= 0 or r.random() < 0.25:
            k = r.choice(["Dense", "Dense", "DenseD", "Diag", "Scal", "Ident", "other", "DiagG", "ScalG"])
            if k == "DiagG":
                return dict(k="Diag", dt=dt, d=g.graded(n, not neg_ok, cplx))
            if k == "ScalG":
                return dict(k="Scal", dt=dt, c=g.graded(1, not neg_ok, cplx)[0], n=n)
            if k == "Dense":
                return dict(k="Dense", dt=dt, a=g.gmat(g.unimod(n, cplx)))
            if k == "DenseD":
                d = np.diag([complex(*r.choice([[1, 0], [2, 0], [-2, 0], [3, 0]])) for _ in range(n)])
                return dict(k="Dense", dt=dt, a=g.gmat(g.unimod(n, cplx) @ d))
            if k == "Diag":
                vals = [[1, 0], [4, 0], [9, 0], [2, 0]] + ([[-4, 0], [-1, 0], [-3, 0]] if neg_ok else []) + ([[0, 2], [-3, 4], [1, -1]] if cplx else [])
                return dict(k="Diag", dt=dt, d=[r.choice(vals) for _ in range(n)])
            if k == "Scal":
                vals = [[1, 0], [4, 0], [2, 0]] + ([[-4, 0], [-2, 0]] if neg_ok else []) + ([[0, 2], [-3, 4]] if cplx else [])
                return dict(k="Scal", dt=dt, c=r.choice(vals), n=n)
            if k == "Ident":
                return dict(k="Ident", dt=dt, n=n)
            for _ in range(20):
                t = g.tree(n, 1, cplx)
                if t["k"] not in ("Kron", "BDiag", "Diag", "Scal"):
                    return t
            return dict(k="Dense", dt=dt, a=g.gmat(g.unimod(n, cplx)))
        k = r.choice(["Kron", "Kron", "BDiag", "BDiag"]) if n >= 2 else "BDiag"
        if k == "Kron":
            return dict(k="Kron", ms=[self.ns(s, depth - 1, cplx) for s in self.sizes(n)])
        ps = self.parts(n)
        return dict(k="BDiag", ms=[self.ns(s, depth - 1, cplx) for s, _ in ps], mu=[m for _, m in ps])


def dty(B):
    name = type(B).__name__.split("[")[0]
    if name == "Triangular":
        return f"DtTri {'true' if B.lower else 'false'}"
    if name == "Product" and [type(M).__name__.split('[')[0] for M in B.Ms] == ["ScalarMul", "Identity"]:
        return "DtScalId"
    if name == "Kronecker":
        return "DtKron [" + ";".join(dty(M) for M in B.Ms) + "]"
    if name == "BlockDiag":
        return "DtBDiag [" + ";".join(f"({dty(M)}, {int(mu)})" for M, mu in zip(B.Ms, B.multiplicities)) + "]"
    return f"DtOp {L.OPCODE.get(name, 98)}"


def sqrt_pairs(t, acc):
    """(x, x**0.5) for every entry of a Diagonal / ScalarMul node that the structural rules reach"""
    k = t["k"]
    if k in ("Diag", "Scal"):
        vals = t["d"] if k == "Diag" else [t["c"]]
        dt = T.npdt(t["dt"])
        for v in vals:
            x = np.array(complex(*v)).astype(dt) if t["dt"] in T.CPLX else np.array(float(v[0]), dtype=dt)
            with warnings.catch_warnings():
                warnings.simplefilter("ignore")
                acc.append((complex(x), complex(x ** 0.5)))
    elif k in ("Kron", "BDiag"):
        for x in t["ms"]:
            sqrt_pairs(x, acc)
    return acc


def has_graded(t):
    if t["k"] == "Diag":
        m = [abs(complex(*v)) for v in t["d"]]
        return max(m) > 1e5 * min(m)
    return any(has_graded(x) for x in L.subs(t))


def is_perm_matrix(P):
    P = np.asarray(P)
    return bool(np.all((P == 0) | (P == 1)) and np.all(P.sum(0) == 1) and np.all(P.sum(1) == 1))


def run_impl(case):
    import cola
    cholesky, plu = api()
    if case.get("callable"):   # the exported algorithm objects: Cholesky()(A), LU()(A)
        cholesky, plu = cola.linalg.Cholesky(), cola.linalg.LU()
    A = L.build(case["tree"])
    t = L.reflect(A)
    D = T.dense(t)
    Ad = np.asarray(A.to_dense())
    if Ad.shape != D.shape or not np.array_equal(Ad.astype(complex), D):
        raise RuntimeError("reflection self-test failed")
    o = dict(pd=case["pd"], want_dtype=np.dtype(A.dtype))
    with warnings.catch_warnings():
        warnings.simplefilter("ignore")
        if case["pd"]:
            with L.Recorder() as rec:
                try:
                    C = cholesky(A)
                    o["C"] = np.asarray(C.to_dense())
                    o["tyC"], o["tyC_str"] = dty(C), L.type_str(C)
                    o["okC"] = True
                except Exception as e:
                    o["okC"], o["errC"] = False, f"{type(e).__name__}: {str(e)[:120]}"
            o["chol"] = rec.chol
        with L.Recorder() as rec:
            try:
                P, Lo, U = plu(A)
                o["P"], o["L"], o["U"] = (np.asarray(x.to_dense()) for x in (P, Lo, U))
                o["tyP"], o["tyL"], o["tyU"] = dty(P), dty(Lo), dty(U)
                o["tyPLU_str"] = [L.type_str(x) for x in (P, Lo, U)]
                o["okP"] = True
            except Exception as e:
                o["okP"], o["errP"] = False, f"{type(e).__name__}: {str(e)[:120]}"
        o["lu"] = rec.lu
    return t, D, o


def coq_case(t, o, flag_sqrt=True, single=False):
    n = T.shape(t)[0]
    gate = 1e-4 if single else 1e-10
    numc = nump = True
    lus, chs = [], []
    for a, (p, Lm, U) in o.get("lu", []):
        ex = L.lu_rational(a, p) if a.shape[0] == a.shape[1] else None
        if ex is None or not (np.abs(L.cq_to_np(ex[0]) - Lm).max() <= gate * max(1, np.abs(Lm).max()) and np.abs(L.cq_to_np(ex[1]) - U).max() <= gate * max(1, np.abs(U).max())):
            nump = False
            continue
        lus.append(f"({L.qmat(a)}, ({L.nlist(p)}, {L.qmat(ex[0])}, {L.qmat(ex[1])}))")
    for a, Lm in o.get("chol", []):
        if L.chol_exact(a, Lm):
            chs.append(f"({L.qmat(a)}, {L.qmat(Lm)})")
        else:
            numc = False
    sq = []
    for x, y in sqrt_pairs(t, []):
        finite = bool(np.isfinite(y.real) and np.isfinite(y.imag))
        fx = L.CQ.of(x)
        fy = L.CQ.of(y) if finite else None
        if not finite or not (fy * fy == fx):
            nump = nump and not flag_sqrt   # the repaired plu rule takes no square roots
            numc = False
            continue
        if not (fy * fy.conj() == fx):
            numc = False
        sq.append(f"({L.qnum(x)}, {L.qnum(y)})")
    okC, okP = o.get("okC"), o.get("okP")
    b = lambda x: "true" if x else "false"
    e = "[]"
    o["numc"], o["nump"] = bool(numc and okC), bool(nump and okP)
    return ("{| de := " + L.coq_tree(t) + f"; dn := {n}; dlu := [" + ";".join(lus) + "]; dchol := [" + ";".join(chs) + "]; dsqrt := [" + ";".join(dict.fromkeys(sq)) + "]; "
            f"dnumc := {b(numc and okC)}; dnump := {b(nump and okP)}; dflag := {b(flag_sqrt)}; dpd := {b(o['pd'] and okC)}; "
            f"dtyC := {o['tyC'] if okC else 'DtOp 0'}; dtyP := {o['tyP'] if okP else 'DtOp 0'}; dtyL := {o['tyL'] if okP else 'DtOp 0'}; dtyU := {o['tyU'] if okP else 'DtOp 0'}; "
            f"dC := {L.qmat(o['C']) if numc and okC else e}; dP := {L.qmat(o['P']) if nump and okP else e}; dL := {L.qmat(o['L']) if nump and okP else e}; "
            f"dU := {L.qmat(o['U']) if nump and okP else e}; dtol2 := {'Q2Qc (1 # 25000000)' if single else 'Q2Qc (1 # 10000000000000000)'}; "
            f"dabs2 := {'Q2Qc (1 # 100000000000)' if single else 'Q2Qc (1 # 100000000000000000000000000)'} |}}")


def leaves_ok(t, kappa):
    """every sub-operator that takes the dense path is well conditioned (graded Diagonal / ScalarMul factors are entry-wise exact and exempt)"""
    k = t["k"]
    if k in ("Kron", "BDiag"):
        return all(leaves_ok(x, kappa) for x in t["ms"])
    if k in ("Diag", "Scal", "Ident") or t.get("g"):
        return True
    D = T.dense(t)
    return D.shape[0] == D.shape[1] and bool(np.all(np.isfinite(D))) and np.linalg.matrix_rank(D) == D.shape[0] and np.linalg.cond(D) <= kappa


def oracle(D, o, single=False):
    """independent oracle: multiply the factors back (component-wise backward error, so that small entries of widely graded data count),
    test triangularity / permutation (plain numpy)"""
    bad = []
    n = D.shape[0]
    tol = (1e-3 if single else 1e-9) * n
    tiny = 1e-300
    if o["pd"]:
        if not o.get("okC"):
            bad.append("cholesky raised " + o.get("errC", ""))
        else:
            C = o["C"].astype(complex)
            if C.shape != D.shape or not np.all(np.abs(C @ C.conj().T - D) <= tol * (np.abs(C) @ np.abs(C).T + np.abs(D)) + tiny):
                bad.append("L L^H != A")
            elif np.abs(np.triu(C, 1)).max(initial=0) != 0:
                bad.append("cholesky factor not lower triangular")
            if o["C"].dtype != o["want_dtype"]:
                bad.append(f"cholesky factor dtype {o['C'].dtype} instead of {o['want_dtype']}")
    if not o.get("okP"):
        bad.append("plu raised " + o.get("errP", ""))
    else:
        P, Lo, U = (o[x].astype(complex) for x in ("P", "L", "U"))
        if not (P.shape == Lo.shape == U.shape == D.shape) or not np.all(np.abs(P @ Lo @ U - D) <= tol * (np.abs(P) @ np.abs(Lo) @ np.abs(U) + np.abs(D)) + tiny):
            bad.append("P L U != A")
        else:
            if not is_perm_matrix(P):
                bad.append("P is not a permutation matrix")
            if np.abs(np.triu(Lo, 1)).max(initial=0) != 0:
                bad.append("L not lower triangular")
            if np.abs(np.tril(U, -1)).max(initial=0) != 0:
                bad.append("U not upper triangular")
        for nm in ("L", "U"):
            if o[nm].dtype != o["want_dtype"]:
                bad.append(f"{nm} dtype {o[nm].dtype} instead of {o['want_dtype']}")
    return bad


def scale_leaves(A, c):
    """rebuild an operator through its pytree interface with every floating-point leaf multiplied by c"""
    flat, unflatten = A.flatten()
    new = [p_ * c if (hasattr(p_, "dtype") and np.issubdtype(np.asarray(p_).dtype, np.inexact)) else p_ for p_ in flat]
    return unflatten(new)


def pytree_stream(ctx, n_cases, present):
    """hidden state on operator instances: factorise, rebuild the operator through flatten()/unflatten() with changed leaves (also through .to() and the
    annotation wrappers), factorise again - the second result must be that of a fresh operator with the new parameters (plain numpy oracle on the rebuilt
    operator's own payloads), and factorising the same object twice must give the same factors."""
    import cola
    cholesky, plu = api()
    r = ctx.rng
    g = Gen11(r, present)
    rows, bad_rows = [], []
    for ci in range(n_cases):
        cplx = r.random() < 0.3
        g.g.single, g.g.kappa = False, 1e3
        n = r.choice([2, 3, 4, 4, 6])
        pd = r.random() < 0.6
        shape_kind = r.choice(["dense", "dense", "tree"])
        if shape_kind == "dense":
            if pd:
                Lo = g.g.lower(n, cplx, posdiag=True)
                t = dict(k="Dense", dt=g.g.dt(cplx), a=g.g.gmat(Lo @ Lo.conj().T))
            else:
                t = dict(k="Dense", dt=g.g.dt(cplx), a=g.g.gmat(g.g.unimod(n, cplx)))
        else:
            t = g.pd(n, 2, cplx) if pd else g.ns(n, 2, cplx)
        if not leaves_ok(t, 1e3) or has_graded(t) or "'g': True" in str(t):
            continue
        if "Sparse" in T.kinds_of(t):
            continue   # Sparse keeps a static CSR copy of its data leaf (recorded C18 finding): a rebuilt Sparse multiplies with the old values
        route = r.choice(["unflatten", "unflatten", "to+unflatten", "PSD+unflatten", "unflatten+PSD", "same"])
        c = r.choice([4.0, 2.0, 9.0, 3.0])
        row = dict(n=n, pd=pd, route=route, c=c, kind=t["k"])
        bad = []
        try:
            with warnings.catch_warnings(), np.errstate(all="ignore"):
                warnings.simplefilter("ignore")
                A = L.build(t)
                first = dict(pd=pd, want_dtype=np.dtype(A.dtype))
                if pd:
                    C1 = cholesky(A)
                    first.update(okC=True, C=np.asarray(C1.to_dense()))
                P1, L1, U1 = plu(A)
                first.update(okP=True, P=np.asarray(P1.to_dense()), L=np.asarray(L1.to_dense()), U=np.asarray(U1.to_dense()))
                bad += ["first call: " + b_ for b_ in oracle(T.dense(L.reflect(A)), first)]
                A2 = A
                if route.startswith("to"):
                    A2 = A2.to(None)
                if route.startswith("PSD") and pd:
                    A2 = cola.PSD(A2)
                if route != "same":
                    A2 = scale_leaves(A2, c)
                if route.endswith("+PSD") and pd:
                    A2 = cola.PSD(A2)
                D2 = T.dense(L.reflect(A2))     # what the rebuilt operator represents, from its own payloads
                second = dict(pd=pd, want_dtype=np.dtype(A2.dtype))
                if pd:
                    C2 = cholesky(A2)
                    second.update(okC=True, C=np.asarray(C2.to_dense()))
                P2, L2, U2 = plu(A2)
                second.update(okP=True, P=np.asarray(P2.to_dense()), L=np.asarray(L2.to_dense()), U=np.asarray(U2.to_dense()))
                bad += ["after rebuild: " + b_ for b_ in oracle(D2, second)]
                if route == "same" and not all(np.array_equal(first[k_], second[k_]) for k_ in ("P", "L", "U")):
                    bad.append("factorising the same operator twice gives different factors")
        except Exception as e:
            bad.append(f"raised {type(e).__name__}: {str(e)[:160]}")
        rows.append(row)
        if bad:
            bad_rows.append(dict(oracle_fail=True, case=dict(tree=t, **row), failed_clauses=bad))
    return rows, bad_rows


def run(ctx):
    fnd = findings()
    present = {f["flag"] for f in fnd if f["present"]}
    from props import c06
    present |= {f["flag"] for f in c06.findings() if f["present"]} | c06.c01_present()
    r = ctx.rng
    g = Gen11(r, present)
    ncases = ctx.budget(500, 5000)
    dmax = ctx.budget(3, 4)
    cases = []
    tries = 0
    while len(cases) < ncases and tries < 30 * ncases:
        tries += 1
        cplx = r.random() < 0.4
        single = r.random() < 0.3
        g.g.single, g.g.kappa = single, (30.0 if single else 1e3)
        n = r.choice([1, 2, 3, 4, 4, 5, 6, 6, 8, 9, 12])
        pd = r.random() < 0.5
        t = g.pd(n, r.randint(0, dmax), cplx) if pd else g.ns(n, r.randint(0, dmax), cplx)
        if not leaves_ok(t, g.g.kappa):
            continue
        cases.append(dict(tree=t, pd=pd, cplx=cplx, single=single, callable=(r.random() < 0.3)))
    terms, meta, mism = [], [], []
    n_lu = n_ch = n_lu_ok = n_ch_exact = 0
    for ci, case in enumerate(cases):
        try:
            with np.errstate(all="ignore"):
                t, D, o = run_impl(case)
        except Exception as e:
            mism.append(dict(oracle_fail=False, case=case, harness_error=f"{type(e).__name__}: {str(e)[:300]}"))
            continue
        case["reflected"] = t
        for a, (p, Lm, U) in o.get("lu", []):
            n_lu += 1
            n_lu_ok += bool(np.abs((Lm @ U)[p] - a).max() <= 1e-12 * max(1, np.abs(a).max()) and np.abs(np.triu(Lm, 1)).max(initial=0) == 0 and np.abs(np.tril(U, -1)).max(initial=0) == 0)
        for a, Lm in o.get("chol", []):
            n_ch += 1
            n_ch_exact += bool(L.chol_exact(a, Lm))
        bad = oracle(D, o, case["single"])
        terms.append(coq_case(t, o, "plu_diagonal_negative_nan" in present, case["single"]))
        meta.append((ci, bad, o))
    shard = ctx.budget(50, 100)
    jobs = []
    for s in range(0, len(terms), shard):
        body = HEADER + "Definition cases : list dcase := [\n" + ";\n".join(terms[s:s + shard]) + "].\nEval vm_compute in (length cases, failing dcheck 0 cases).\n"
        jobs.append((f"c11_{s // shard}", body))
    failing = set()
    for si, (rc, out) in enumerate(core.coqc_many(jobs, 900)):
        m = re.search(r"=\s*\((\d+),\s*\[(.*?)\]\)", out, flags=re.S)
        if rc != 0 or not m:
            mism.append(dict(oracle_fail=False, harness_error=f"shard {jobs[si][0]}: rc={rc}\n{out[-1500:]}"))
            continue
        failing |= {si * shard + int(x) for x in m.group(2).replace("\n", " ").split(";") if x.strip()}
    for i, (ci, bad, o) in enumerate(meta):
        if bad or i in failing:
            oo = {k: (v.tolist() if isinstance(v, np.ndarray) else v) for k, v in o.items() if k in ("pd", "okC", "okP", "errC", "errP", "tyC_str", "tyPLU_str", "C", "P", "L", "U")}
            mism.append(dict(oracle_fail=bool(bad), case=dict(tree=cases[ci]["reflected"], pd=cases[ci]["pd"]), got=oo, failed_clauses=bad, model_disagrees=(i in failing)))
    pt_rows, pt_bad = pytree_stream(ctx, ctx.budget(120, 1000), present)
    mism += pt_bad
    used = [cases[ci] for ci, _, _ in meta]
    kh = {}
    for c in used:
        for k in set(T.kinds_of(c["reflected"])):
            kh[k] = kh.get(k, 0) + 1
    distinct = len({core.digest(c["reflected"]) for c in used if T.depth(c["reflected"]) >= 2})
    types = {}
    for _, _, o in meta:
        if o.get("okP"):
            h = o["tyPLU_str"][1].split("[")[0]
            types[h] = types.get(h, 0) + 1
    return dict(
        evaluations=len(terms) + len(pt_rows), distinct_nontrivial=distinct,
        rule="random positive definite trees (cholesky + plu) and non-singular trees (plu) over Dense, Identity, Diagonal, ScalarMul, Kronecker with 2-3 factors of unequal size, "
             "BlockDiag with multiplicities <= 3, nestings to depth %d, plus Product/Sum/Transpose/Triangular/Permutation/... inputs that take the dense path; real and complex; "
             "non-trivial = depth>=2; distinct by reflected tree hash" % dmax,
        samples=[dict(tree=c["reflected"], pd=c["pd"]) for c in used[:2]],
        mismatches=mism, findings=fnd,
        extra=dict(kind_histogram=kh, pytree_rebuild_cases=len(pt_rows), pytree_routes={k_: sum(1 for r_ in pt_rows if r_["route"] == k_) for k_ in sorted({r_["route"] for r_ in pt_rows})}, positive_definite=sum(1 for c in used if c["pd"]), single_precision=sum(1 for c in used if c.get("single")),
                   graded_diagonals=sum(1 for c in used if has_graded(c["reflected"])), complex_trees=sum(1 for c in used if c["cplx"]),
                   L_factor_head_types=types,
                   cholesky_values_in_coq=sum(1 for _, _, o in meta if o.get("numc")), plu_values_in_coq=sum(1 for _, _, o in meta if o.get("nump")),
                   lapack_lu_calls=n_lu, lapack_lu_spec_ok=n_lu_ok, lapack_cholesky_calls=n_ch, lapack_cholesky_exact=n_ch_exact,
                   depth_histogram={d: sum(1 for c in used if T.depth(c["reflected"]) == d) for d in range(1, 7)},
                   max_size=max((T.shape(c["reflected"])[0] for c in used), default=0)))
