"""C14 - Lanczos returns an orthonormal Krylov basis and the projected tridiagonal matrix (DESIGN.md section 5, C14)."""
import re
import numpy as np
import core
import c14_lib as L

TRUSTED_BASE = [
    "Coq 8.16.1 kernel + vm_compute; theorems of coq/PropsC14.v closed under the global context except the R-instance examples (standard Reals axioms)",
    "hand-written model coq/C14_Model.v (lanczos, lanczos_fact, init_lanczos, do_double_gram, cond_fun, trimming, aliasing rule) as a reading of "
    "cola/linalg/decompositions/lanczos.py - tied to /repo by this correspondence check (the same Gallina term is run on PrimFloat and proved about)",
    "PrimFloat = IEEE binary64 (Coq's float axioms/implementation); NumPy/BLAS summation order differs from the model's left-to-right sums: compared at 1e-9",
    "harness: c14_lib.py (generator, dense-matrix builders, runner, rendering of cases as Coq terms), shim.py (numpy vmap used by batched starts)",
    "independent oracle: plain numpy on dense matrices (orthonormality, first column, T = Q^H A Q, residual confined to the last column, Krylov span, early exit)",
]
# kernel primitives of Coq's binary64 floats (not logical axioms); Print Assumptions lists them for the three
# *_refuted witnesses, which are evaluated on PrimFloat by vm_compute
EXTRA_AXIOMS = ["PrimFloat.float", "PrimFloat.add", "PrimFloat.sub", "PrimFloat.mul", "PrimFloat.div", "PrimFloat.opp", "PrimFloat.abs",
                "PrimFloat.sqrt", "PrimFloat.ltb", "PrimFloat.leb", "PrimFloat.eqb"]
ASSUMPTIONS = [
    "float64 / complex128 operators only (the model computes in binary64)",
    "theorems are about exact arithmetic over an abstract field with involution and inner-product space (weak equality: tested against every vector); "
    "floating-point behaviour is covered by the correspondence check and the oracle, not by the theorems",
    "Coq comparison skips (and counts) cases whose stopping decision is within 1e-6 of flipping or where a pending vector below 1e-4 of the scale of T was normalised (noise amplification)",
    "regions spoiled by the recorded defects (grade-1 starts, aliasing operators, batches whose elements exhaust at different steps, tol below the noise floor with early exhaustion) "
    "are generated only for the oracle when the corresponding probe says the defect is gone",
]



def findings():
    from cola.linalg.decompositions.lanczos import lanczos
    import cola
    from cola import ops
    out = []

    def probe(flag, what, fn, witness):
        try:
            present, got = fn()
        except Exception as e:
            present, got = True, f"raised {type(e).__name__}: {e}"
        out.append(dict(flag=flag, present=bool(present), what=what, witness=witness, got=str(got)))

    def alias():
        A = cola.SelfAdjoint(ops.Identity((3, 3), np.float64))
        Q, T, _ = lanczos(A, np.array([1., 1., 1.]), max_iters=3)
        Q = np.asarray(Q.to_dense())
        # the overwritten columns hold the un-normalised product result (norm ~1e-47), not unit vectors; (loss of orthogonality
        # alone would not single this defect out: for Identity every start is an eigenvector, see lanczos_reltol_first_step)
        dev = float(np.abs(np.linalg.norm(Q, axis=0) - 1).max())
        err = float(np.abs(Q.T @ Q - np.eye(Q.shape[1])).max())
        return dev > 1e-6, f"columns={Q.shape[1]} max| ||q_j|| - 1 |={dev:.3g} max|Q^T Q - I|={err:.3g}"
    probe("lanczos_alias_identity",
          "lanczos on an operator whose product returns its argument (Identity): the in-place updates of the product result overwrite the basis column it aliases; returned columns are not unit vectors",
          alias, "lanczos(SelfAdjoint(Identity((3,3),float64)), [1,1,1], max_iters=3)")

    def reltol():
        S = np.array([[2., 1., 0.], [1., 3., 1.], [0., 1., 4.]])
        w, U = np.linalg.eigh(S)
        Q, T, _ = lanczos(cola.SelfAdjoint(ops.Dense(S)), U[:, 0].copy(), max_iters=3)
        k = Q.shape[1]
        Td = np.asarray(T.to_dense())
        th = np.linalg.eigvalsh(Td)
        off = float(max(np.abs(w - t).min() for t in th))
        return k > 1, f"columns={k} (Krylov space has dimension 1); distance of eig(T) from eig(A)={off:.3g}"
    probe("lanczos_reltol_first_step",
          "the stopping test compares beta_{i-1} with tol*beta_1, i.e. at i=2 beta_1 with itself: a start vector that is an eigenvector (Krylov space exhausted at the first step) "
          "is only detected when beta_1 is exactly 0; otherwise rounding noise is normalised into further columns and T gains Ritz values that are not eigenvalues of A",
          reltol, "lanczos(SelfAdjoint(Dense([[2,1,0],[1,3,1],[0,1,4]])), first eigenvector from numpy eigh, max_iters=3)")

    def startdtype():
        S = np.array([[2., 1., 0.], [1., 3., 1.], [0., 1., 4.]])
        b = np.array([1 + 2j, 2 - 1j, 3j])
        import warnings
        with warnings.catch_warnings():
            warnings.simplefilter("ignore")
            Q, T, _ = lanczos(cola.SelfAdjoint(ops.Dense(S)), b, max_iters=2)
        Q = np.asarray(Q.to_dense())
        err = float(np.abs(Q[:, 0] - b / np.linalg.norm(b)).max())
        return err > 1e-8, f"Q dtype {Q.dtype}; max|Q[:,0] - v/||v||| = {err:.3g}"
    probe("lanczos_start_dtype_cast",
          "lanczos allocates its basis in the operator's dtype: a complex start vector on a real symmetric operator loses its imaginary part "
          "(a float64 start vector on a float32 operator is rounded to float32), so the first column is not v/||v|| and the Krylov space is that of another vector",
          startdtype, "lanczos(SelfAdjoint(Dense([[2,1,0],[1,3,1],[0,1,4]])), [1+2j,2-1j,3j], max_iters=2)")

    def batch():
        S = np.diag([1., 2., 3., 4., 5.]) + 0.5 * (np.eye(5, k=1) + np.eye(5, k=-1))
        w, U = np.linalg.eigh(S)
        V = np.stack([np.array([1., -1., 2., 0.5, 1.5]), U[:, 0] + U[:, 1]], 1)
        Q, T, _ = lanczos(cola.SelfAdjoint(ops.Dense(S)), V, max_iters=4)
        be = np.asarray(T.beta)[1][:, 0]; al = np.asarray(T.alpha)[1][:, 0]
        k = len(be)
        Td = np.diag(be) + np.diag(al, 1) + np.diag(al, -1)
        th = np.linalg.eigvalsh(Td)
        off = float(max(np.abs(w - t).min() for t in th))
        return k > 2 and off > 1e-6, f"element 1 (Krylov dimension 2) got {k} columns; distance of eig(T) from eig(A)={off:.3g}"
    probe("lanczos_batch_shared_stop",
          "batched start vectors share one stopping test (any over the batch): an element whose Krylov space is exhausted keeps iterating while another continues; "
          "its later columns are normalised rounding noise and its T has Ritz values that are not eigenvalues of A",
          batch, "lanczos(SelfAdjoint(Dense(diag(1..5)+0.5*offdiag)), start block [[1,-1,2,.5,1.5], u0+u1], max_iters=4)")
    return out


def eval_cases(name, terms, shard=150, timeout=900, fn="codes"):
    jobs = []
    for s in range(0, len(terms), shard):
        body = L.HEADER + "Definition cases : list lcase := [\n" + ";\n".join(terms[s:s + shard]) + "].\n"
        body += f"Eval vm_compute in (length cases, {fn} 0 cases).\nEval vm_compute in (maxdiff_agreeing cases).\n"
        jobs.append((f"{name}_{s // shard}", body))
    outs = core.coqc_many(jobs, timeout)
    codes = {}
    maxdiff = 0.0
    for si, (rc, out) in enumerate(outs):
        out = out.replace("%nat", "")
        m = re.search(r"=\s*\((\d+),\s*\[(.*?)\]\)\s*:", out, flags=re.S)
        if rc != 0 or not m:
            return None, f"shard {si}: rc={rc}\n{out[-1500:]}", None
        if int(m.group(1)) != len(terms[si * shard:(si + 1) * shard]):
            return None, f"shard {si}: evaluated {m.group(1)} cases", None
        md = re.search(r"=\s*([-+0-9.e]+|nan|infinity)\s*:\s*float", out)
        try:
            maxdiff = max(maxdiff, float(md.group(1).replace("infinity", "inf")))
        except Exception:
            maxdiff = float("nan")
        pairs = re.findall(r"\(\s*(\d+)\s*,\s*(\d+)\s*\)", m.group(2))
        if len(pairs) != m.group(2).count("("):          # fail closed: every printed pair must have been parsed
            return None, f"shard {si}: could not parse the list of codes\n{m.group(2)[:500]}", None
        for a, b in pairs:
            codes[si * shard + int(a)] = int(b)
    return codes, None, maxdiff


def run(ctx):
    fnd = findings()
    present = {f["flag"] for f in fnd if f["present"]}
    ncoq = ctx.budget(450, 4000)
    nmax = ctx.budget(12, 20)
    cases, avoided, gone_region = [], {}, []
    tries = 0
    while len(cases) < ncoq and tries < 20 * ncoq:
        tries += 1
        c = L.gen_case(ctx.rng, present, nmax=nmax)
        reg = L.in_avoided_region(c, present)
        if reg:
            avoided[reg] = avoided.get(reg, 0) + 1
            flag = {"grade1": "lanczos_reltol_first_step", "batch_unequal": "lanczos_batch_shared_stop"}.get(reg)
            if flag and flag not in present and len(gone_region) < ncoq // 4:
                gone_region.append(c)          # defect gone: the region is covered again (oracle)
            continue
        cases.append(c)
    # operators that alias their argument: every start is an eigenvector; generated only when both defects are gone
    if "lanczos_alias_identity" not in present and "lanczos_reltol_first_step" not in present:
        for _ in range(ctx.budget(10, 60)):
            c = L.gen_case(ctx.rng, present, nmax=nmax, force=dict(kind="dense"))
            c["kind"] = "identity"; c["cplx"] = False; c["parts"] = []
            c["v"] = L.enc(L.dec(c["v"]).real); c["grades"] = [1] * len(c["grades"]); c["start"] = "identity_op"
            if c["tol"] >= 1e-9:
                cases.append(c)
    # start vector of a wider dtype than the operator (complex on real, float64 on float32): region of lanczos_start_dtype_cast
    mixedt = [L.gen_mixed_dtype(ctx.rng, nmax=min(nmax, 10)) for _ in range(ctx.budget(40, 240))]
    if "lanczos_start_dtype_cast" in present:
        avoided["mixed_dtype"] = len(mixedt)
        mixedt = []
    cases += mixedt
    # calls WITHOUT a start vector (default random probe, key given or not), every operator kind incl. Tridiagonal with negative / zero /
    # complex couplings, Diagonal, Identity: compared with the model and the oracle on the independently reproduced probe
    nostart = [L.gen_nostart(ctx.rng, present, nmax=min(nmax, 10)) for _ in range(ctx.budget(60, 300))]
    if "lanczos_reltol_first_step" in present or "lanczos_alias_identity" in present:
        nostart = [c for c in nostart if c["kind"] != "identity"]
    cases += nostart
    # mixed batches: one element exhausts its Krylov space early, the others are generic (either order), max_iters < n.
    # Region of lanczos_batch_shared_stop: used whenever the probe says the flag is gone
    mixed = [L.gen_mixed_batch(ctx.rng, nmax=min(nmax, 10)) for _ in range(ctx.budget(40, 240))]
    if "lanczos_batch_shared_stop" in present:
        avoided["batch_mixed"] = len(mixed)
        mixed = []
    # larger operators: oracle only (sizes up to 300)
    big = []
    for _ in range(ctx.budget(12, 60)):
        c = L.gen_case(ctx.rng, present, nmax=12, force=dict(n=int(ctx.rng.choice([30, 64, 100, 200, 300])), kind="dense"))
        c["max_iters"] = int(ctx.rng.choice([1, 5, 20, 40, 64, 110]))
        if not L.in_avoided_region(c, present):
            big.append(c)

    rfix = "lanczos_reltol_first_step" not in present       # model variant: repaired stopping test when the flag is gone
    obs = [L.run_impl(c) for c in cases]
    mism = []
    # the aliasing rule of the model (l_alias = true) against the implementation on the flag's own witness
    alias_wit = 0
    if "lanczos_alias_identity" in present:
        wc = dict(kind="identity", cplx=False, style="identity", parts=[], n=3, start="witness", batch=0, grades=[1],
                  v=L.enc(np.array([[1., 1., 1.]])), max_iters=3, tol=1e-7, entry="lanczos")
        wo = L.run_impl(wc)
        if wo.get("ok") and wo.get("alias"):
            wcodes, werr, _ = eval_cases("c14_wit", [L.coq_case(wc, wo, True, rfix)], fn="codes_plain")
            alias_wit = 1
            if werr or wcodes:
                mism.append(dict(oracle_fail=False, case=wc, got={k: wo.get(k) for k in ("k", "off", "diag", "Q")},
                                 model_disagrees="the model's aliasing rule no longer reproduces the implementation on the flag's witness",
                                 harness_error=werr, model_code=(wcodes or {}).get(0)))
    idx = [i for i, o in enumerate(obs) if o.get("ok")]
    terms = [L.coq_case(cases[i], obs[i], "lanczos_alias_identity" in present, rfix) for i in idx]
    codes, err, maxdiff = eval_cases("c14", terms)
    if err:
        mism.append(dict(oracle_fail=False, harness_error=err))
        codes = {}
    code_of = {idx[j]: cd for j, cd in codes.items()}
    hist = {}
    for i, (c, o) in enumerate(zip(cases, obs)):
        bad = L.oracle(c, o)
        cd = code_of.get(i, 0)
        hist[cd] = hist.get(cd, 0) + 1
        if bad or cd >= 3:
            mism.append(dict(oracle_fail=bool(bad), case=c, got={k: o.get(k) for k in ("ok", "err", "k", "shapes", "off", "diag")},
                             failed_clauses=bad, model_code=cd,
                             model_disagrees={3: "number of columns", 4: "values of Q/T"}.get(cd)))
    # every element of a mixed batch against the single-start model run of that element, and against the oracle
    elem_compared = 0
    if mixed:
        mobs = [L.run_impl(c) for c in mixed]
        eterms, owner = [], []
        for ci, (c, o) in enumerate(zip(mixed, mobs)):
            bad = L.oracle(c, o)
            if bad:
                mism.append(dict(oracle_fail=True, case=c, got={k: o.get(k) for k in ("ok", "err", "k", "shapes", "off", "diag")}, failed_clauses=bad))
            if o.get("ok"):
                for b, t in enumerate(L.coq_elem_cases(c, o, "lanczos_alias_identity" in present, rfix)):
                    eterms.append(t); owner.append((ci, b))
        ecodes, eerr, _ = eval_cases("c14_elem", eterms, fn="codes_elem")
        elem_compared = len(eterms)
        if eerr:
            mism.append(dict(oracle_fail=False, harness_error=eerr))
        for j, cd in (ecodes or {}).items():
            if cd >= 3:
                ci, b = owner[j]
                mism.append(dict(oracle_fail=False, case=mixed[ci], element=b, model_code=cd,
                                 got={k: mobs[ci].get(k) for k in ("k", "shapes", "off", "diag")},
                                 model_disagrees="batch element differs from the single-start run of the same start vector "
                                                 + {3: "(fewer columns)", 4: "(values)"}[cd]))
    # exact-arithmetic stream (integer / dyadic data, canonical start vectors, involutions, 2x2 blocks, 1x1): beta exactly 0.0 at
    # exhaustion, tolerances on the boundary of the stopping test (0, beta_1/||A q_1||, 1), every max_iters around the grade and
    # around n; bit-exact runs, compared without any excuse (codes_plain) and by the oracle
    exact = [L.gen_exact_case(ctx.rng) for _ in range(ctx.budget(120, 700))]
    # ... and exact inputs with CONSTANT recurrence coefficients (tridiagonal Toeplitz from e_1): beta_j identical bit for bit at every
    # step while the Krylov space grows to dimension n; a few with n = max_iters straddling 50 and 100
    exact += [L.gen_constant_recurrence(ctx.rng) for _ in range(ctx.budget(30, 150))]
    exact_big = []
    for nb in ctx.budget([52, 101], [33, 52, 64, 101, 130]):
        cb = L.gen_constant_recurrence(ctx.rng, n=nb); cb["max_iters"] = nb + int(ctx.rng.choice([0, 0, 1])); cb["tol"] = float(ctx.rng.choice([1e-7, 0.0]))
        exact_big.append(cb)
    n_small_exact = len(exact)
    exact += exact_big
    xobs = [L.run_impl(c) for c in exact]
    xok = [i for i, o in enumerate(xobs) if o.get("ok")]
    xs = [i for i in xok if i < n_small_exact]; xb = [i for i in xok if i >= n_small_exact]
    xterm = lambda i: L.coq_case(exact[i], xobs[i], "lanczos_alias_identity" in present, rfix)
    xcodes, xerr, _ = eval_cases("c14_exact", [xterm(i) for i in xs], fn="codes_plain")
    bcodes, berr, _ = eval_cases("c14_exactbig", [xterm(i) for i in xb], fn="codes_plain", shard=1)
    if xerr or berr:
        mism.append(dict(oracle_fail=False, harness_error=xerr or berr))
    xbad = {xs[j] for j in (xcodes or {})} | {xb[j] for j in (bcodes or {})}
    for i, (c, o) in enumerate(zip(exact, xobs)):
        bad = L.oracle(c, o)
        if bad or i in xbad:
            mism.append(dict(oracle_fail=bool(bad), case=c, got={k: o.get(k) for k in ("ok", "err", "k", "shapes", "off", "diag")}, failed_clauses=bad,
                             model_disagrees=("exact-arithmetic case: columns/values differ from the model (no tolerance excuse applies)" if i in xbad else None)))
    # lanczos_eigs over tolerances 1e-14..1e-3 and weak couplings 1e-13..1e-3: values = eig of the T of lanczos() with the same arguments,
    # and the spectrum of A whenever the tolerance resolves the coupling
    weak = [L.gen_weak_coupling(ctx.rng) for _ in range(ctx.budget(40, 250))]
    if {"lanczos_reltol_first_step", "lanczos_start_dtype_cast"} & set(present):
        avoided["weak_coupling_eigs"] = len(weak)
        weak = []
    for c in weak:
        o = L.run_impl(c)
        bad = L.oracle_eigs(c, o)
        if bad:
            mism.append(dict(oracle_fail=True, case=c, got={k: o.get(k) for k in ("ok", "err", "k", "shapes", "eigs", "off", "diag")}, failed_clauses=bad))
    # symmetrically graded operators D M D (dynamic range up to 1e8) through lanczos_eigs
    graded = [L.gen_graded(ctx.rng) for _ in range(ctx.budget(30, 150))]
    for c in graded:
        o = L.run_impl(c)
        bad = L.oracle_graded(c, o)
        if bad:
            mism.append(dict(oracle_fail=True, case=c, got={k: o.get(k) for k in ("ok", "err", "k", "eigs", "off", "diag")}, failed_clauses=bad))
    # start vectors of a narrower dtype than the operator (float32 / complex64), also with norms near the underflow of the squared norm
    narrow = [L.gen_narrow_start(ctx.rng, nmax=min(nmax, 10)) for _ in range(ctx.budget(40, 200))]
    if "lanczos_start_dtype_cast" in present:
        narrow = []
    for c in narrow:
        o = L.run_impl(c)
        bad = L.oracle(c, o, check_span=False)
        if bad:
            mism.append(dict(oracle_fail=True, case=c, got={k: o.get(k) for k in ("ok", "err", "k", "shapes", "off", "diag")}, failed_clauses=bad))
    for c in gone_region + big:
        o = L.run_impl(c)
        bad = L.oracle(c, o, check_span=c["n"] <= 64)
        if bad:
            mism.append(dict(oracle_fail=True, case=c if c["n"] <= 20 else {k: v for k, v in c.items() if k not in ("parts",)},
                             got={k: o.get(k) for k in ("ok", "err", "k", "shapes")}, failed_clauses=bad))

    def nontrivial(c, o):
        return c["n"] >= 3 and o.get("ok") and o.get("k", 0) >= 2
    distinct = len({core.digest([c["parts"], c["v"], c["max_iters"], c["tol"]]) for c, o in zip(cases, obs) if nontrivial(c, o)})
    kh, sh, mh, eh = {}, {}, {}, {}
    for c, o in zip(cases, obs):
        kh[c["kind"]] = kh.get(c["kind"], 0) + 1
        sh[c["start"]] = sh.get(c["start"], 0) + 1
        rel = "m<n" if c["max_iters"] < c["n"] else ("m=n" if c["max_iters"] == c["n"] else "m>n")
        mh[rel] = mh.get(rel, 0) + 1
        if o.get("ok"):
            m = min(c["max_iters"], c["n"])
            eh["early" if o["k"] < m else "cap"] = eh.get("early" if o["k"] < m else "cap", 0) + 1
    return dict(
        evaluations=len(cases) + len(gone_region) + len(big) + len(mixed) + len(exact) + len(weak) + len(graded) + len(narrow), distinct_nontrivial=distinct,
        rule="Hermitian operators n<=%d (dense/PSD/Sum/Product/Diagonal/ScalarMul/Kronecker/Tridiagonal/matmat-defined; real and complex; gaussian, definite, indefinite, "
             "repeated and clustered spectra), starts random/few eigenvectors/exact eigenvectors/scaled, 1-D and batched, max_iters 1..n+3, ten tolerances; "
             "non-trivial = n>=3 and >=2 columns returned; distinct by hash of (operator data, start, max_iters, tol)" % nmax,
        samples=[dict(kind=c["kind"], n=c["n"], cplx=c["cplx"], start=c["start"], batch=c["batch"], max_iters=c["max_iters"], tol=c["tol"], entry=c["entry"],
                      v=c["v"], parts=c["parts"]) for c in cases[:2]],
        mismatches=mism, findings=fnd,
        extra=dict(compared_in_coq=len(idx) + alias_wit, model_stopping_test=("repaired" if rfix else "pinned"), alias_witness_compared=alias_wit, max_model_impl_difference=maxdiff, tolerance=1e-9, near_tie=hist.get(1, 0), noise_amplified_skipped=hist.get(2, 0), agree=hist.get(0, 0),
                   kind_histogram=kh, start_histogram=sh, max_iters_vs_n=mh, exit_histogram=eh,
                   complex_cases=sum(1 for c in cases if c["cplx"]), batched_cases=sum(1 for c in cases if c["batch"]),
                   avoided_regions=avoided, weak_coupling_eigs_cases=len(weak), graded_eigs_cases=len(graded), narrow_dtype_start_cases=len(narrow), no_start_vector_cases=len(nostart), exact_stream_cases=len(exact), exact_stream_tol0=sum(1 for c in exact if c['tol'] == 0.0), mixed_batches_used=len(mixed), batch_elements_vs_single_start=elem_compared, defect_free_region_cases=len(gone_region), large_oracle_only=len(big),
                   impl_exceptions=sum(1 for o in obs if not o.get("ok"))))


def replay(ctx, payload):
    """./check C14 --replay file : re-run one recorded witness (a defect flag's probe or a failing case)"""
    known, _ = core.parse_known()
    known_flags = {k["flag"] for k in known if k["property"] == "C14"}
    if payload.get("flag"):
        f = [x for x in findings() if x["flag"] == payload["flag"]]
        if f and f[0]["present"]:
            print(("KNOWN-FINDING: " if f[0]["flag"] in known_flags else "VIOLATION ") + f"property=C14 flag={f[0]['flag']} {f[0]['got']}")
            return 0 if f[0]["flag"] in known_flags else 1
        print(f"property=C14 flag={payload['flag']} no longer present")
        return 0
    cases = [payload["case"]] if "case" in payload else [c["case"] for c in payload.get("cases", []) if "case" in c]
    present = {f["flag"] for f in findings() if f["present"]}
    rc = 0
    for c in cases:
        o = L.run_impl(c)
        bad = L.oracle(c, o, check_span=c["n"] <= 64)
        cd = None
        if o.get("ok") and c["n"] <= 40:
            codes, err, _ = eval_cases("c14_replay", [L.coq_case(c, o, "lanczos_alias_identity" in present, "lanczos_reltol_first_step" not in present)])
            cd = err or (codes or {}).get(0, 0)
        print(f"replay C14: oracle failed clauses={bad} model comparison code={cd}")
        if bad or (isinstance(cd, int) and cd >= 3) or isinstance(cd, str):
            rc = 1
    return rc
