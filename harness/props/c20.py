"""C20 - indexing and slicing an operator match indexing the represented matrix (DESIGN.md section 5, C20)."""
import numpy as np
import shim  # noqa: F401
import opcases as O
import trees as T
import core
import c20_lib as L

TRUSTED_BASE = [
    "Coq 8.16.1 kernel + vm_compute (no native_compute); theorems closed under the global context (no axioms)",
    "hand-written models coq/C20_GetItem.v (the `match ids` cascade of LinearOperator.__getitem__, Sliced constructor), coq/PySlice.v (CPython slice adjustment), coq/Op.v (Sliced scatter/gather products) - tied to /repo by this correspondence check",
    "numpy semantics modelled, not verified: negative-index rule, fancy indexing of 1-D arrays, np.arange(n)[s], a[idx] = x scatter; the specification spec_index is itself compared with numpy indexing of the dense oracle on every run",
    "harness: trees.py (JSON tree -> cola objects / Coq terms / independent numpy dense oracle), c20_lib.py (index expressions -> python objects / Coq terms, numpy oracle), shim.py",
]
ASSUMPTIONS = [
    "exact tier: payloads and operands are small Gaussian integers, so float32/float64 arithmetic is exact",
    "whether transpose() returns the operator itself (`A.T is A`: isa(SelfAdjoint) on a real operator) is read off the implementation per indexed operator and passed to the model (flag field f_T_self); annotation inference itself is property C05. The theorems require the matrix to be symmetric in that case (sym_ok); a wrongly inherited annotation shows up as an oracle failure on the two-level stream (slices of operators declared SelfAdjoint/PSD, then every index form)",
    "reading of the statement: two slices/index arrays select the outer sub-matrix A[rows,:][:,cols] (the documented meaning of Sliced); a pair of python lists is numpy's pairwise selection",
    "index forms outside the statement's list (None, Ellipsis, numpy integers, a single python list, list combined with a slice) are only checked for model/implementation agreement (they end in NotImplementedError or, for a 2-element list, in the `b, int(j)` branch)",
]
FLAGS = ("getitem_row_nonsquare", "getitem_list_uses_dotA", "sliced_drops_imag", "sliced_index_array_cpu",
         "sliced_duplicate_indices", "getitem_empty_lists", "getitem_list_zip_truncates")


# ---------------------------------------------------------------------------------------------- probes
def findings():
    from cola import ops
    out = []

    def probe(flag, what, fn, witness):
        try:
            present, got = fn()
        except Exception as e:
            present, got = True, f"raised {type(e).__name__}: {e}"
        out.append(dict(flag=flag, present=bool(present), what=what, witness=witness, got=str(got)[:300]))

    M34 = np.arange(12.).reshape(3, 4)

    def row_nonsquare():
        A = ops.Dense(M34)
        bad = []
        for name, f, want in (("A[1]", lambda: A[1], M34[1]), ("A[1,:]", lambda: A[1, :], M34[1]),
                              ("A.T[1,::2]", lambda: ops.Dense(M34.T)[1, ::2], M34.T[1, ::2])):
            try:
                r = np.asarray(f())
                if r.shape != want.shape or not np.array_equal(r, want):
                    bad.append(f"{name} = {r.tolist()}")
            except Exception as e:
                bad.append(f"{name} raised {type(e).__name__}")
        return bool(bad), "; ".join(bad)
    probe("getitem_row_nonsquare", "A[i] and A[i, b] build the canonical vector with length shape[-1] instead of shape[-2]: "
          "row access on a non-square operator raises AssertionError", row_nonsquare, "Dense(arange(12).reshape(3,4))[1]")

    def list_dotA():
        K = ops.Kronecker(ops.Dense(np.array([[1., 2.], [3., 4.]])), ops.Dense(np.array([[1., 1.], [0., 1.]])))
        D = np.kron(np.array([[1., 2.], [3., 4.]]), np.array([[1., 1.], [0., 1.]]))
        bad = []
        try:
            r = np.asarray(K[[0, 1], [1, 2]])
            if not np.array_equal(r, D[[0, 1], [1, 2]]):
                bad.append(f"Kronecker[[0,1],[1,2]] = {r.tolist()}")
        except Exception as e:
            bad.append(f"Kronecker[[0,1],[1,2]] raised {type(e).__name__}")
        try:
            r = np.asarray(ops.Transpose(K)[[0], [1]])
            if not np.array_equal(r, D.T[[0], [1]]):
                bad.append(f"Transpose(K)[[0],[1]] = {r.tolist()} (K^T[0,1] = {D.T[0, 1]})")
        except Exception as e:
            bad.append(f"Transpose(K)[[0],[1]] raised {type(e).__name__}")
        try:
            S = ops.Dense(np.arange(9.).reshape(3, 3))[1:, 1:]
            r = np.asarray(S[[0], [0]])
            if not np.array_equal(r, np.array([4.])):
                bad.append(f"Dense(3x3)[1:,1:][[0],[0]] = {r.tolist()} (expected [4.0])")
        except Exception as e:
            bad.append(f"Sliced[[0],[0]] raised {type(e).__name__}")
        return bool(bad), "; ".join(bad)
    probe("getitem_list_uses_dotA", "A[[i..],[j..]] multiplies self.A instead of self: AttributeError for kinds without .A, "
          "transposed entries for Transpose/Adjoint, entries of the parent for Sliced", list_dotA,
          "Kronecker(Dense([[1,2],[3,4]]),Dense([[1,1],[0,1]]))[[0,1],[1,2]]; Transpose(K)[[0],[1]]")

    def sliced_imag():
        A = ops.Dense(np.array([[1., 2.], [3., 4.]]))[0:2, 0:2]
        x = np.array([1j, 1.0])
        y = A @ x
        want = np.array([[1., 2.], [3., 4.]]) @ x
        return not np.array_equal(np.asarray(y, dtype=complex), want), np.asarray(y).tolist()
    probe("sliced_drops_imag", "a complex operand multiplied into a slice of a real operator loses its imaginary part",
          sliced_imag, "Dense([[1,2],[3,4]])[0:2,0:2] @ [1j,1]")

    M33 = np.arange(9.).reshape(3, 3)

    def sliced_arr():
        A = ops.Dense(M33)[np.array([0, 2]), :]
        D = A.to_dense()
        return not np.array_equal(D, M33[[0, 2]]), D
    probe("sliced_index_array_cpu", "A[index array] raises AttributeError (.cpu() on a numpy array: numpy>=2 arrays have .device)",
          sliced_arr, "Dense(arange(9).reshape(3,3))[array([0,2]), :].to_dense()")

    def sliced_dup():
        try:
            A = ops.Dense(M33)[:, np.array([1, 1])]
        except AttributeError:
            return False, "unreachable: index arrays are rejected (sliced_index_array_cpu)"
        y = A @ np.array([1., 10.])
        want = M33[:, [1, 1]] @ np.array([1., 10.])
        return not np.array_equal(np.asarray(y), want), np.asarray(y).tolist()
    probe("sliced_duplicate_indices", "a repeated column index in an index array: the scatter Y[cols] = X keeps only the last "
          "of the repeated entries while M[:, cols] @ X adds them", sliced_dup, "Dense(arange(9).reshape(3,3))[:, array([1,1])] @ [1,10]")

    def empty_lists():
        r = np.asarray(ops.Dense(M33)[[], []])
        return r.shape != (0,), r.shape
    probe("getitem_empty_lists", "A[[], []] raises ValueError (stack of an empty list) where numpy returns an empty vector",
          empty_lists, "Dense(arange(9).reshape(3,3))[[], []]")

    def zip_trunc():
        r = np.asarray(ops.Dense(M33)[[0, 1], [1]])
        return not np.array_equal(r, M33[[0, 1], [1]]), r.tolist()
    probe("getitem_list_zip_truncates", "A[[0,1],[1]] pairs the lists with zip and returns one entry where numpy broadcasts "
          "the shorter list and returns two", zip_trunc, "Dense(arange(9).reshape(3,3))[[0,1],[1]]")
    return out


# ---------------------------------------------------------------------------------------------- generation
def spoiled_by(case, qd, present):
    """name of the present flag whose region this query lies in, or None"""
    q = qd["ix"]
    m, n = case["m"], case["n"]
    t = case["tree"]
    if q[0] == "two" and q[1][0] == "list" and q[2][0] == "list":
        if (len(q[1][1]) == 0 or len(q[2][1]) == 0) and "getitem_empty_lists" in present:
            return "getitem_empty_lists"
        if len(q[1][1]) != len(q[2][1]):
            return "getitem_list_zip_truncates" if "getitem_list_zip_truncates" in present else None
        if len(q[1][1]) == 0:
            return None
        if "getitem_list_uses_dotA" in present and t["k"] not in ("Dense", "Tri", "Sparse"):
            return "getitem_list_uses_dotA"
        return None
    if "getitem_row_nonsquare" in present and m != n:
        if (q[0] == "one" and q[1][0] == "int") or (q[0] == "two" and q[1][0] == "int" and q[2][0] != "int"):
            return "getitem_row_nonsquare"
    if L.is_sliced_form(q):
        comps = [q[1]] + ([q[2]] if q[0] == "two" else [])
        if any(c[0] == "arr" for c in comps):
            if "sliced_index_array_cpu" in present:
                return "sliced_index_array_cpu"
            if "sliced_duplicate_indices" in present:
                # the scatter keeps the last of repeated indices: columns always matter, rows when to_dense goes through the left product
                def dup(c, size):
                    if c[0] != "arr":
                        return False
                    v = [x % size for x in c[1] if -size <= x < size]
                    return len(set(v)) < len(v)
                rowc, colc = comps[0], (comps[1] if len(comps) > 1 else ["slice", None, None, None])
                try:
                    nr_, nc_ = len(L.axis_list(rowc, m)), len(L.axis_list(colc, n))
                except Exception:
                    nr_, nc_ = 1, 1
                if dup(colc, n) or (dup(rowc, m) and 8 * nr_ < nc_):
                    return "sliced_duplicate_indices"
        if "sliced_drops_imag" in present and qd.get("dx") in T.CPLX and not case["cplx"]:
            return "sliced_drops_imag"
    return None


def sparse_tie_defect():
    """C01's recorded finding sparse_unsorted_cols (data order paired with column-sorted CSR indices) also shows through
    transpose(Sparse) / Sparse._rmatmat because numpy's default argsort is not stable; used only to steer the generator"""
    from cola import ops
    try:
        ent = [(0, 0, 1.), (0, 1, 2.), (0, 2, 3.), (1, 1, 4.), (1, 2, 5.), (2, 0, 6.)]
        S = ops.Sparse(np.array([e[2] for e in ent]), np.array([e[0] for e in ent]), np.array([e[1] for e in ent]), (3, 3))
        D = np.zeros((3, 3))
        for i, j, v in ent:
            D[i, j] = v
        A = ops.Sparse(np.array([2., 3.]), np.array([1, 1]), np.array([2, 0]), (2, 3))
        return not (np.array_equal(np.asarray(S.T.to_dense()), D.T) and np.array_equal(np.asarray(A.to_dense()), np.array([[0., 0, 0], [3, 0, 2]])))
    except Exception:
        return True


def sanitize(t, sparse_ties):
    """keep Sparse leaves inside the region C01's sparse finding does not spoil: at most one entry per row and per column"""
    if not sparse_ties:
        return t
    if t["k"] == "Sparse":
        rows, cols, ent = set(), set(), []
        for i, j, v in t["ent"]:
            if i not in rows and j not in cols:
                rows.add(i)
                cols.add(j)
                ent.append([i, j, v])
        t["ent"] = ent
    for x in (t.get("ms") or ([t["a"]] if isinstance(t.get("a"), dict) else [])):
        sanitize(x, sparse_ties)
    return t


def tree_ok(t, present):
    if "sliced_index_array_cpu" in present:
        bad = []

        def walk(x):
            if x["k"] == "Sliced" and (T.range_slice(x["rs"]) is None or T.range_slice(x["cs"]) is None):
                bad.append(1)
            for y in (x.get("ms") or ([x["a"]] if isinstance(x.get("a"), dict) else [])):
                walk(y)
        walk(t)
        if bad:
            return False
    return True


def rand_idx_list(rnd, n, lo=0, hi=4, oob=0.05):
    k = rnd.randint(lo, hi)
    out = []
    for _ in range(k):
        if n > 0 and rnd.random() > oob:
            out.append(rnd.randint(-n, n - 1))
        else:
            out.append(rnd.choice([n, -n - 1, n + 1]))
    return out


def make_queries(rnd, case, pools, present, nslice):
    m, n = case["m"], case["n"]
    cplx = case["cplx"]
    qs = []

    def add(q):
        qd = dict(ix=q)
        if L.is_sliced_form(q):
            try:
                cols = L.axis_list(q[2], n) if q[0] == "two" else np.arange(n)
                xr = len(cols)
            except Exception:
                xr = 1
            xc = rnd.random() < (0.6 if cplx else 0.3)
            if "sliced_drops_imag" in present and not cplx:
                xc = False      # region spoiled by the flag (the ring-level model cannot drop imaginary parts): probed only
            qd.update(xr=xr, k=rnd.choice([1, 2, 3]), dx=rnd.choice(T.CPLX if xc else T.REAL))
            qd["X"] = O.rand_mat(rnd, xr, qd["k"], xc)
        qs.append(qd)
    # integers: every row / column / entry (dimension <= 5), a sample beyond; one step outside the range for the error clause
    rows = list(range(-m, m)) if m <= 5 else sorted(rnd.sample(range(-m, m), 6))
    cols = list(range(-n, n)) if n <= 5 else sorted(rnd.sample(range(-n, n), 6))
    thin = "getitem_row_nonsquare" in present and m != n
    for i in (rows if not thin else rnd.sample(rows, min(2, len(rows)))) + [rnd.choice([m, -m - 1])]:
        add(["one", ["int", i]])
    for j in cols + [rnd.choice([n, -n - 1])]:
        add(["two", ["slice", None, None, None], ["int", j]])
    pairs = [(i, j) for i in rows for j in cols]
    if len(pairs) > 30:
        pairs = rnd.sample(pairs, 30)
    for i, j in pairs:
        add(["two", ["int", i], ["int", j]])
    add(["two", ["int", rnd.choice([m, -m - 1])], ["int", rnd.choice(cols)]])
    add(["two", ["int", rnd.choice(rows)], ["int", rnd.choice([n, -n - 1])]])
    # A[i, b], A[b, j] with b a slice / array / list
    for _ in range(1 if thin else 4):
        b = rnd.choice([["slice", None, None, None], ["slice", *pools.take(n)], ["arr", rand_idx_list(rnd, n)], ["list", rand_idx_list(rnd, n)]])
        add(["two", ["int", rnd.choice(rows)], b])
    for _ in range(4):
        b = rnd.choice([["slice", *pools.take(m)], ["slice", *pools.take(m)], ["arr", rand_idx_list(rnd, m)], ["list", rand_idx_list(rnd, m)]])
        add(["two", b, ["int", rnd.choice(cols)]])
    # slices
    for _ in range(nslice):
        r = rnd.random()
        if r < 0.15:
            add(["one", ["slice", *pools.take(m)]])
        elif r < 0.25:
            add(["two", ["slice", *pools.take(m)], ["slice", None, None, None]])
        elif r < 0.35:
            add(["two", ["slice", None, None, None], ["slice", *pools.take(n)]])
        else:
            add(["two", ["slice", *pools.take(m)], ["slice", *pools.take(n)]])
    # integer index arrays (outer selection). While they are rejected only a few are sent (model: AttributeError).
    narr = 1 if "sliced_index_array_cpu" in present else 5
    for _ in range(narr):
        a = ["arr", rand_idx_list(rnd, m, 0, 4, 0.03)]
        b = ["arr", rand_idx_list(rnd, n, 0, 4, 0.03)]
        form = rnd.choice(["one", "as", "sa", "aa"])
        if form == "one":
            add(["one", a])
        elif form == "as":
            add(["two", a, ["slice", *pools.take(n)]])
        elif form == "sa":
            add(["two", ["slice", *pools.take(m)], b])
        else:
            add(["two", a, b])
        # repeated column indices: Op.v models the scatter as the pinned code does it (last write wins). Once index arrays
        # work and the probe says duplicates are summed, such queries are compared with the oracle only.
        if "sliced_index_array_cpu" not in present and "sliced_duplicate_indices" not in present:
            def dupl(c, size):
                v = [x % size for x in c[1] if -size <= x < size]
                return len(set(v)) < len(v)
            if (form in ("sa", "aa") and dupl(b, n)) or (form in ("one", "as", "aa") and dupl(a, m)):
                qs[-1]["nomodel"] = True
    # list pairs (pairwise selection), equal lengths; the empty pair once in a while
    for _ in range(3):
        k = rnd.randint(1, 4)
        li = [rnd.randint(-m, m - 1) for _ in range(k)]
        lj = [rnd.randint(-n, n - 1) for _ in range(k)]
        if rnd.random() < 0.08:
            li[rnd.randrange(k)] = rnd.choice([m, -m - 1])
        if rnd.random() < 0.08:
            lj[rnd.randrange(k)] = rnd.choice([n, -n - 1])
        add(["two", ["list", li], ["list", lj]])
    if rnd.random() < 0.15:
        add(["two", ["list", []], ["list", []]])
    # lists of different lengths: numpy broadcasts a list of length 1, refuses other mismatches (thin while zip truncates)
    if rnd.random() < (0.12 if "getitem_list_zip_truncates" in present else 0.6):
        k = rnd.randint(0, 3)
        li, lj = [rnd.randint(-m, m - 1) for _ in range(k)], [rnd.randint(-n, n - 1) for _ in range(rnd.choice([1, 1, 1, k + 1, 2]))]
        if rnd.random() < 0.5:
            li, lj = [rnd.randint(-m, m - 1) for _ in range(len(lj))], [rnd.randint(-n, n - 1) for _ in range(len(li))]
        add(["two", ["list", li], ["list", lj]])
    # forms outside the statement: must be refused (or follow the cascade) exactly as the model says
    if rnd.random() < 0.5:
        add(rnd.choice([["other", rnd.choice(L.OTHERS)], ["one", ["list", rand_idx_list(rnd, min(m, n), 1, 3, 0.0)]],
                        ["two", ["list", rand_idx_list(rnd, m, 1, 2, 0.0)], ["slice", None, None, None]],
                        ["two", ["slice", None, None, None], ["list", rand_idx_list(rnd, n, 1, 2, 0.0)]]]))
    return qs


def herm_parent(rnd, n, dt, sparse_ties, present):
    """(tree, psd): a square tree whose matrix is Hermitian (psd: positive semi-definite) by construction"""
    cplx = dt in T.CPLX
    g = T.Gen(rnd, kinds=[k for k in T.LEAF + T.COMP if k not in ("KronSum",)], dts=(dt,), vmax=2)
    g.concat_equal = True
    g.sparse_sorted = True

    def v(real=False):
        return [rnd.randint(-2, 2), rnd.randint(-2, 2) if (cplx and not real) else 0]

    def sub(shape, d):
        for _ in range(40):
            t = sanitize(g.tree(d, shape, cplx), sparse_ties)
            if tree_ok(t, present):
                return t
        return dict(k="Dense", dt=dt, a=[[v() for _ in range(shape[1])] for _ in range(shape[0])])

    def herm(n, depth):
        form = rnd.choice(["dense", "gram", "sum", "prod", "diag", "kron", "kron", "bdiag"] if depth > 0 else ["dense", "gram", "diag"])
        if form == "dense":
            a = [[None] * n for _ in range(n)]
            for i in range(n):
                for j in range(i, n):
                    x = v(real=(i == j))
                    a[i][j] = x
                    a[j][i] = [x[0], -x[1]]
            return dict(k="Dense", dt=dt, a=a), False
        if form == "gram":
            p = rnd.randint(1, 2)
            X = np.array([[complex(*v()) for _ in range(n)] for _ in range(p)])
            G = X.conj().T @ X
            return dict(k="Dense", dt=dt, a=T.to_gauss(G)), True
        if form == "diag":
            psd = rnd.random() < 0.5
            return dict(k="Diag", dt=dt, d=[[rnd.randint(0 if psd else -3, 3), 0] for _ in range(n)]), psd
        if form == "sum":
            B = sub((n, n), depth - 1)
            return dict(k="Sum", ms=[B, dict(k="Adj", a=B)]), False
        if form == "prod":
            B = sub((rnd.randint(1, 3), n), depth - 1)
            return dict(k="Prod", ms=[dict(k="Adj", a=B), B]), True
        if form == "bdiag":
            b = rnd.randint(1, n)
            if b == n:
                h, ps = herm(n, depth - 1)
                return dict(k="BDiag", ms=[h], mu=[1]), ps
            h1, p1 = herm(b, depth - 1)
            h2, p2 = herm(n - b, depth - 1)
            return dict(k="BDiag", ms=[h1, h2], mu=[1, 1]), (p1 and p2)
        fs = [(a, n // a) for a in range(1, n + 1) if n % a == 0]
        a, b = rnd.choice(fs)
        h1, p1 = herm(a, depth - 1)
        h2, p2 = herm(b, depth - 1)
        return dict(k="Kron", ms=[h1, h2]), (p1 and p2)
    return herm(n, rnd.randint(0, 2))


def slice_of(idx):
    s = T.range_slice(idx)
    return (s.start, s.stop, s.step)


def alt_form(rnd, L, n):
    """a slice tuple selecting the arithmetic progression L of range(n), written with negative / open bounds at random"""
    s = T.range_slice(L)
    a, b, c = s.start, s.stop, s.step
    if c in (None, 1) and rnd.random() < 0.5:
        c = None
    if a is not None and rnd.random() < 0.4:
        a = a - n if (c is None or c > 0 or a - n < 0) else a
    if (c is None or c > 0):
        if b is not None and b >= n and rnd.random() < 0.6:
            b = None
        elif b is not None and 0 < b < n and rnd.random() < 0.4:
            b = b - n
        if a == 0 and rnd.random() < 0.5:
            a = None
    return (a, b, c)


def two_level_slices(rnd, n):
    """(rows, cols) as slice tuples: equal selections, equal index SETS in a different order (one axis reversed), shifted
    selections of equal length, OFF-DIAGONAL blocks of equal size (both starts >= the block size) and CORNER blocks
    (A[-k:, :k], A[:k, -k:]) - all of which must NOT inherit SelfAdjoint/PSD -, unrelated ones"""
    def prog():
        st = rnd.choice([1, 1, 2, 3])
        a = rnd.randint(0, n - 1)
        k = rnd.randint(1, (n - 1 - a) // st + 1)
        return [a + i * st for i in range(k)]
    kind = rnd.choice(["equal", "equal_rev", "rev_rows", "rev_cols", "shift", "free", "offdiag", "offdiag", "corner", "corner"])
    L = prog()
    if kind == "equal":
        f = alt_form(rnd, L, n)
        return (f, f) if rnd.random() < 0.5 else (f, alt_form(rnd, L, n))
    if kind == "equal_rev":
        return slice_of(L[::-1]), slice_of(L[::-1])
    if kind == "rev_rows":
        return slice_of(L[::-1]), alt_form(rnd, L, n)
    if kind == "rev_cols":
        return alt_form(rnd, L, n), slice_of(L[::-1])
    if kind == "offdiag" and n >= 5:
        k = rnd.randint(2, (n - 1) // 2)
        starts = [a for a in range(k, n - k + 1)]
        if len(starts) >= 2:
            a, b = rnd.sample(starts, 2)
            return alt_form(rnd, list(range(a, a + k)), n), alt_form(rnd, list(range(b, b + k)), n)
    if kind == "corner" and n >= 3:
        k = rnd.randint(2, n - 1)
        lo, hi = (None, k, None), (-k, None, None)
        if rnd.random() < 0.3:
            lo, hi = alt_form(rnd, list(range(k)), n), alt_form(rnd, list(range(n - k, n)), n)
        return (hi, lo) if rnd.random() < 0.5 else (lo, hi)
    if kind in ("shift", "offdiag", "corner"):
        k = len(L)
        a, b = rnd.randint(0, n - k), rnd.randint(0, n - k)
        return alt_form(rnd, list(range(a, a + k)), n), alt_form(rnd, list(range(b, b + k)), n)
    return alt_form(rnd, prog(), n), alt_form(rnd, prog(), n)


def annotated_cases(ctx, present, n_cases, pools, sparse_ties):
    """operators carrying a true SelfAdjoint / PSD declaration: indexed directly, and - two-level - through a slice taken
    from them with __getitem__ (what the slice inherits decides what `self.T` is in the row forms)"""
    rnd = ctx.rng
    out = []
    tries = 0
    while len(out) < n_cases and tries < 40 * n_cases:
        tries += 1
        n = rnd.randint(2, 9)
        dt = rnd.choice(T.DTS)
        parent, psd = herm_parent(rnd, n, dt, sparse_ties, present)
        if T.absbound(parent) * 5 * n > 2 ** 20:
            continue
        D = T.dense(parent)
        assert np.array_equal(D, D.conj().T)
        ann = "PSD" if (psd and rnd.random() < 0.6) else "SelfAdjoint"
        if rnd.random() < 0.2:
            c = dict(tree=parent, m=n, n=n, cplx=dt in T.CPLX, ann=ann)
        else:
            s1, s2 = two_level_slices(rnd, n)
            rs, cs = list(range(n))[slice(*s1)], list(range(n))[slice(*s2)]
            if not rs or not cs:
                continue
            c = dict(tree=dict(k="Sliced", a=parent, rs=rs, cs=cs), m=len(rs), n=len(cs), cplx=dt in T.CPLX,
                     two=dict(ann=ann, s1=s1, s2=s2))
        c["queries"] = make_queries(rnd, c, pools, present, nslice=6)
        out.append(c)
    return out


def gen_cases(ctx, present, n_extra, passes):
    rnd = ctx.rng
    sparse_ties = sparse_tie_defect()
    pools = L.Pools(rnd, 5, passes)
    kinds = list(T.LEAF + T.COMP)
    gen = T.Gen(rnd, kinds=kinds)
    gen.concat_equal = True     # region not spoiled by the C01 findings about Concatenated / Sparse
    gen.sparse_sorted = True
    cases = []
    guard = 0

    def new_case(shape, depth):
        for _ in range(60):
            t = sanitize(gen.tree(depth, shape) if shape else gen.tree(depth), sparse_ties)
            m, n = T.shape(t)
            if m == 0 or n == 0 or m * n > 150 or not tree_ok(t, present):
                continue
            if T.absbound(t) * 5 * max(m, n) > 2 ** 20:
                continue
            return dict(tree=t, m=m, n=n, cplx=any(d in T.CPLX for d in O.leaf_dts(t)))
        return None
    # phase 1: until every slice of the exhaustive pools has been used on some operator
    while pools.total_remaining() > 0 and guard < 4000:
        guard += 1
        big = max(range(1, 6), key=lambda k: pools.remaining(k))
        other = rnd.choice([k for k in range(1, 6) if pools.remaining(k) > 0] + [rnd.randint(1, 5)])
        shape = (big, other) if rnd.random() < 0.5 else (other, big)
        if rnd.random() < 0.45:
            # free-shape trees (the only way to Kronecker / BlockDiag / KronSum roots): kept when both axes are <= 5
            c = None
            for _ in range(30):
                c2 = new_case(None, rnd.randint(1, ctx.budget(3, 4)))
                if c2 and c2["m"] <= 5 and c2["n"] <= 5 and (pools.remaining(c2["m"]) or pools.remaining(c2["n"])) \
                        and c2["tree"]["k"] in ("Kron", "BDiag", "KronSum"):
                    c = c2
                    break
        else:
            c = new_case(shape, rnd.randint(0, ctx.budget(3, 4)))
        if c is None:
            continue
        c["queries"] = make_queries(rnd, c, pools, present, nslice=36)
        cases.append(c)
    exhaustive_cases = len(cases)
    # phase 2: free shapes (Kronecker / BlockDiag / KronSum roots, larger and wide/tall operators), random slices beyond n = 5
    while len(cases) < exhaustive_cases + n_extra:
        shape = None if rnd.random() < 0.6 else (rnd.randint(1, 9), rnd.randint(1, 9))
        c = new_case(shape, rnd.randint(0, ctx.budget(3, 4)))
        if c is None:
            continue
        c["queries"] = make_queries(rnd, c, pools, present, nslice=12)
        cases.append(c)
    # long list pairs: lengths straddling 64 / 100 / 128 / 256 / 512 / 1024 (blocked implementations), on small and mid-size operators
    lens = [63, 65, 100, 129, 255, 257, 300, 511, 513, 600, 1023, 1025]
    picks = rnd.sample(lens, ctx.budget(4, len(lens))) + [rnd.choice([257, 300, 513, 600]), rnd.choice([1025, 700])]
    pool = [c for c in cases if c["m"] * c["n"] <= 60 and not O.has_kind(c["tree"], ("KronSum",))]
    for ln in picks:
        if not pool:
            break
        c = rnd.choice(pool)
        m, n = c["m"], c["n"]
        c["queries"].append(dict(ix=["two", ["list", [rnd.randint(-m, m - 1) for _ in range(ln)]], ["list", [rnd.randint(-n, n - 1) for _ in range(ln)]]]))
    # phase 3: annotated operators and two-level indexing
    cases += annotated_cases(ctx, present, ctx.budget(90, 1200), pools, sparse_ties)
    return cases, pools, exhaustive_cases


def slice_entries(rnd, n_random):
    ent = []
    for n in range(0, 6):
        for (a, b, c) in L.all_slices(n):
            ent.append((n, a, b, c))
    for _ in range(n_random):
        n = rnd.randint(0, 40)
        v = lambda: rnd.choice([None] + list(range(-n - 3, n + 4)))
        ent.append((n, v(), v(), rnd.choice([None, 1, -1, 2, -2, 3, -3, 0, 5, -7, n, -n, n + 1])))
    out = []
    for n, a, b, c in ent:
        try:
            want = list(range(*slice(a, b, c).indices(n)))
        except ValueError:
            want = None
        out.append((n, a, b, c, want))
    return out


# ---------------------------------------------------------------------------------------------- the check
def run(ctx):
    fnd = findings()
    present = {f["flag"] for f in fnd if f["present"]}
    fl = dict(row="getitem_row_nonsquare" in present, dotA="getitem_list_uses_dotA" in present,
              cpu="sliced_index_array_cpu" in present, empty="getitem_empty_lists" in present,
              zip="getitem_list_zip_truncates" in present)
    mism = []
    # (1) PySlice.indices against CPython on the whole exhaustive domain (n <= 5) + random larger ones
    sl = slice_entries(ctx.rng, ctx.budget(1500, 60000))
    sfail, serr = L.eval_slices("c20_slices", sl)
    if serr:
        mism.append(dict(oracle_fail=False, harness_error=serr))
    elif sfail:
        mism.append(dict(oracle_fail=False, what="coq/PySlice.v indices differs from slice.indices", cases=sfail[:10]))
    # (2) operator level
    cases, pools, n_exh = gen_cases(ctx, present, ctx.budget(60, 2500), ctx.budget(1, 3))
    obs = [L.run_queries(c) for c in cases]
    dense = [T.dense(c["tree"]) for c in cases]
    judged = []
    for c, ob, M in zip(cases, obs, dense):
        judged.append([L.oracle_query(M, qd, o) for qd, o in zip(c["queries"], ob)])
    coq_idx = list(range(len(cases)))
    keep = {i: [k for k, qd in enumerate(cases[i]["queries"]) if not qd.get("nomodel") and obs[i][k]["cls"] != "shim_limit"] for i in coq_idx}
    terms = [L.coq_case(cases[i], obs[i], [j[2] for j in judged[i]], fl, keep[i]) for i in coq_idx]
    bad, nq_coq, err = L.eval_cases("c20", terms)
    if err:
        mism.append(dict(oracle_fail=False, harness_error=err))
        bad = {}
    badset = set()
    for ci, qis in bad.items():
        i = coq_idx[ci]
        for qi in qis:
            badset.add((i, keep[i][qi]) if qi < len(keep[i]) else (i, 0))   # 999 = the tree itself is rejected (wf/shape)
    attributed, nq, classes, forms = {}, 0, {}, {}
    for i, c in enumerate(cases):
        for qi, (qd, o) in enumerate(zip(c["queries"], obs[i])):
            nq += 1
            classes[o["cls"] + (":" + o["err"] if o["cls"] == "err" else "")] = classes.get(o["cls"] + (":" + o["err"] if o["cls"] == "err" else ""), 0) + 1
            fk = qd["ix"][0] + ":" + "/".join(x[0] for x in qd["ix"][1:] if isinstance(x, list))
            forms[fk] = forms.get(fk, 0) + 1
            fails, why, _ = judged[i][qi]
            model_bad = (i, qi) in badset
            flag = spoiled_by(c, qd, present) if fails else None
            if fails and flag and not model_bad:
                attributed[flag] = attributed.get(flag, 0) + 1
                continue
            if fails or model_bad:
                mism.append(dict(oracle_fail=bool(fails), case=dict(tree=c["tree"], two_level=c.get("two"), declared=c.get("ann"), ix=qd["ix"], X=qd.get("X"), dx=qd.get("dx")),
                                 got=o, oracle_says=why, model_disagrees=model_bad, flags=fl))
    distinct = len({(core.digest(c["tree"]), core.digest(qd["ix"])) for c in cases for qd in c["queries"]
                    if O.nontrivial(c) or qd["ix"][0] == "two"})
    shapes = {"square": 0, "tall": 0, "wide": 0}
    for c in cases:
        shapes["square" if c["m"] == c["n"] else ("tall" if c["m"] > c["n"] else "wide")] += 1
    return dict(
        evaluations=nq + len(sl), distinct_nontrivial=distinct,
        rule="operator trees of every kind (square/tall/wide); per tree: every integer row/column/entry index in [-n, n) (+1 outside), "
             "A[i,b]/A[b,j] with slices, arrays, lists, slice pairs drawn without replacement from ALL slices with start/stop/step in "
             "[-n-1, n+1] u {None} for axis length n <= 5, index arrays, list pairs, unsupported forms; sub-operators observed through "
             "to_dense() and @ X (real and complex X). Distinct = distinct (tree, index expression) with a non-trivial tree or a 2-D index",
        samples=[dict(tree=c["tree"], ix=c["queries"][k]["ix"]) for c in cases[:2] for k in (0, len(c["queries"]) // 2)],
        mismatches=mism, findings=fnd,
        extra=dict(operator_cases=len(cases), queries=nq, queries_compared_in_coq=nq_coq, slices_vs_cpython=len(sl),
                   exhaustive_slice_cases=n_exh, slices_handed_out_per_axis_length=pools.handed, slices_left=pools.total_remaining(),
                   kind_histogram=O.histogram(cases), shape_classes=shapes, outcome_classes=classes, index_forms=forms,
                   attributed_to_present_flags=attributed, model_flags=fl,
                   complex_cases=sum(1 for c in cases if c["cplx"]),
                   annotated_cases=sum(1 for c in cases if c.get("ann")), two_level_cases=sum(1 for c in cases if c.get("two")),
                   two_level_inheriting=sum(1 for c in cases if c.get("two") and c.get("tself")),
                   transpose_is_self_cases=sum(1 for c in cases if c.get("tself")),
                   note_single_list="A[[i,j]] (one python list of two ints) is matched by `case b, int(j)` and returns the scalar A[i,j]; outside the statement's forms, modelled"))
