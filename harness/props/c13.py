"""C13 - GMRES returns the residual-minimising iterate of its Krylov space (DESIGN.md section 5, C13)."""
import numpy as np
import shim  # noqa: F401
import cola
from cola.ops import Dense
import core
import c12_lib as L
import c13_lib as G

TRUSTED_BASE = [
    "Coq 8.16.1 kernel + vm_compute with primitive floats (PrimFloat, binary64) for the execution instances; the theorems of PropsC13.v are closed under the global context (abstract scalars/vectors, no axioms)",
    "hand-written Gallina transcription coq/C13_Model.v of cola/linalg/decompositions/arnoldi.py (arnoldi_fact, init_arnoldi) and cola/linalg/inverse/gmres.py (gmres_fwd), tied to /repo by this correspondence check (model evaluated inside Coq by coq/C13_Check.v)",
    "the dense solve of the m x m normal equations (numpy.linalg.solve / LAPACK gesv) is an oracle in the theorems and Gaussian elimination with partial pivoting in the executed model",
    "harness: c13_lib.py / c12_lib.py (generators, runner, Coq emitter, numpy least-squares Krylov oracle, stability filter), shim.py (numpy vmap)",
]
ASSUMPTIONS = [
    "Tier F: iterates and product counts are compared only on inputs on which the Arnoldi/normal-equations recurrence is numerically stable (binary64 vs extended precision of a reference recurrence agree to 1e-12, same number of steps, clip/stopping/padding decisions with margin > 1e-5); the others are counted as skipped_unstable or near_tie and go through the oracle only",
    "operators enter the model as dense matrices; use_householder / use_triangular / preconditioned variants of gmres are outside the property's anchors and not modelled",
    "minimal-residual clauses allow (1e-6 + 1e-11*kappa^2)*||r0|| (rounding of the normal equations) plus the binary64 accuracy floor 200*eps*(||A|| ||x|| + ||b||); "
    "30*tol*kappa*||r0|| more only when the Arnoldi loop stopped before min(m, n) steps because the remainder fell below tol*||A q_0|| (the accuracy the caller's tol asks for)",
]


def findings():
    from cola.linalg.inverse.gmres import gmres
    from cola.linalg.decompositions.arnoldi import arnoldi
    out = []
    A = np.array([[1.0, 2.0], [3.0, 4.0]])
    b = np.array([1.0, 0.0])
    try:
        x, _ = gmres(Dense(A), b, max_iters=1, tol=1e-7)
        x = np.asarray(x)
        res = float(np.linalg.norm(b - A @ x))
        xo, ro, _ = G.ls_optimum(A, b, np.zeros(2), 1)
        present = bool(res > ro * (1 + 1e-6) + 1e-9)
        got = "x=%s residual=%.6g; least-squares optimum over K_1 is %s with residual %.6g; initial residual 1" % (x.tolist(), res, xo.tolist(), ro)
    except Exception as e:  # noqa
        present, got = True, "raised %s: %s" % (type(e).__name__, e)
    out.append(dict(flag="gmres_square_H", present=present, witness="gmres(Dense([[1,2],[3,4]]), b=[1,0], max_iters=1, tol=1e-7)", got=got,
                    expected="x=[0.1, 0], residual 0.9487",
                    what="gmres drops the last row of the Arnoldi Hessenberg matrix and solves with the square H (Galerkin/FOM iterate): a truncated run does not minimise the residual over x0+K_m and can exceed the initial residual (residual 3 vs ||r0||=1 on the witness)"))
    # max_iters > n: padded buffers, masked by the row maxima of the square H
    s3 = np.sqrt(3.0)
    T3 = np.array([[2.0, 1.0, 0.0], [1.0, 3.0, 1.0], [0.0, 1.0, 4.0]])
    bm = np.array([1.0, 1.0 - s3, 2.0 - s3])      # eigenvector of T3 for 3 - sqrt(3)
    bp = np.array([1.0, 1.0 + s3, 2.0 + s3])      # eigenvector of T3 for 3 + sqrt(3)
    hits = []
    for (Aw, bw, mw, tw, name) in [(T3, bm, 4, 1e-7, "gmres(Dense([[2,1,0],[1,3,1],[0,1,4]]), b=[1,1-sqrt3,2-sqrt3], max_iters=4, tol=1e-7)"),
                                   (T3, bm, 100, 1e-7, "same system with the default max_iters=100"),
                                   (np.eye(3) + 1e-5 * np.array([[0, 1, 1], [.5, 0, 1], [.5, .5, 0]]), np.array([1.0, 2.0, 3.0]), 4, 1e-7,
                                    "gmres(Dense(I + 1e-5*[[0,1,1],[.5,0,1],[.5,.5,0]]), b=[1,2,3], max_iters=4, tol=1e-7)")]:
        try:
            x, _ = gmres(Dense(Aw), bw, max_iters=mw, tol=tw)
            r = float(np.linalg.norm(bw - Aw @ np.asarray(x)) / np.linalg.norm(bw))
            if not np.isfinite(r) or r > 1e-8:
                hits.append("%s: relative residual %.3g" % (name, r))
        except Exception as e:  # noqa
            hits.append("%s: raised %s" % (name, type(e).__name__))
    out.append(dict(flag="arnoldi_padding", present=bool(hits), witness="gmres(Dense([[2,1,0],[1,3,1],[0,1,4]]), b=[1,1-sqrt(3),2-sqrt(3)], max_iters=4, tol=1e-7)",
                    got="; ".join(hits) or "all padded runs solved their systems", expected="x = b/(3-sqrt(3)), residual ~ 1e-16",
                    what="for max_iters > n the Arnoldi buffers are padded with zeros and gmres masks the padded part by the row maxima of the square H: when the n-th "
                         "sub-diagonal entry is not negligible (inexact breakdown, loss of orthogonality) the padded normal equations are singular and gmres raises LinAlgError (also with the default max_iters=100)"))
    # inexact early breakdown: the stopping test compares the new norm with tol*H[1,0], i.e. with itself after the first step
    hits = []
    for (Aw, bw, mw, tw, name) in [(T3, bp, 3, 1e-10, "gmres(Dense([[2,1,0],[1,3,1],[0,1,4]]), b=[1,1+sqrt3,2+sqrt3], max_iters=3, tol=1e-10)"),
                                   (T3, bp, 3, 1e-9, "same, tol=1e-9"), (T3, 7 * bm, 3, 1e-9, "b=7*[1,1-sqrt3,2-sqrt3], max_iters=3, tol=1e-9"),
                                   (T3, 7 * bm, 3, 1e-10, "b=7*[1,1-sqrt3,2-sqrt3], max_iters=3, tol=1e-10"),
                                   (np.array([[0.0, 2.0, 0.0], [1.0, 0.0, 0.0], [0.0, 0.0, 3.0]]), np.array([np.sqrt(2.0), 1.0, 0.0]), 3, 1e-10,
                                    "gmres(Dense([[0,2,0],[1,0,0],[0,0,3]]), b=[sqrt2,1,0], max_iters=3, tol=1e-10)")]:
        try:
            x1, _ = gmres(Dense(Aw), bw, max_iters=1, tol=tw)
            r1 = float(np.linalg.norm(bw - Aw @ np.asarray(x1)) / np.linalg.norm(bw))
            x, _ = gmres(Dense(Aw), bw, max_iters=mw, tol=tw)
            r = float(np.linalg.norm(bw - Aw @ np.asarray(x)) / np.linalg.norm(bw))
            if r1 <= 1e-12 and (not np.isfinite(r) or r > 1e-8):
                hits.append("%s: relative residual %.3g (%.1g with max_iters=1)" % (name, r, r1))
        except Exception as e:  # noqa
            hits.append("%s: raised %s" % (name, type(e).__name__))
    out.append(dict(flag="arnoldi_breakdown_continues", present=bool(hits), witness="gmres(Dense([[2,1,0],[1,3,1],[0,1,4]]), b=[1,1+sqrt(3),2+sqrt(3)] (an eigenvector), max_iters=3, tol=1e-10)",
                    got="; ".join(hits) or "residuals stay at rounding level after an early breakdown", expected="relative residual ~ 1e-16 for every max_iters >= 1",
                    what="after an inexact early breakdown (eigenvector right-hand side) the Arnoldi loop does not stop (its test compares the new norm with tol*H[1,0], which is that norm itself) "
                         "and continues with noise divided by tol/2; the Arnoldi relation is lost and the residual of gmres grows from 1e-16 (max_iters=1) to 1e-6..1e-3 (max_iters>=3, tol<=1e-9), or the solve is singular"))
    # a zero initial residual (zero right-hand side with x0 = 0, or x0 already exact): 0/0 in init_arnoldi
    try:
        with np.errstate(all="ignore"):
            x, _ = gmres(Dense(np.array([[2.0, 1.0], [0.0, 3.0]])), np.array([[1.0, 0.0], [2.0, 0.0]]), max_iters=2, tol=1e-7)
        x = np.asarray(x)
        present = bool(not np.all(np.isfinite(x)) or np.any(x[:, 1] != 0))
        got = "x=%s" % x.tolist()
    except Exception as e:  # noqa
        present, got = True, "raised %s: %s" % (type(e).__name__, e)
    out.append(dict(flag="gmres_zero_residual_nan", present=present, witness="gmres(Dense([[2,1],[0,3]]), B=[[1,0],[2,0]], max_iters=2)", got=got,
                    expected="second column [0, 0] (x0 is already the solution of that column)",
                    what="a column whose initial residual is exactly zero (zero right-hand side with x0 = 0, or an exact initial guess) is returned as NaN: init_arnoldi divides the start vector by its norm 0"))
    # the padded-column mask is relative to the caller's tol: 10 * tol * max|H|
    Ad = np.diag([1000.0, 1.0, 2.0, 3.0])
    bd = np.ones(4)
    try:
        rr = []
        for mw in (2, 3, 4):
            x, _ = gmres(Dense(Ad), bd, max_iters=mw, tol=1e-3)
            rr.append(float(np.linalg.norm(bd - Ad @ np.asarray(x)) / 2.0))
        present = bool(rr[1] > rr[0] * (1 + 1e-6) or rr[2] > 1e-6)
        got = "relative residuals for max_iters=2,3,4: %s" % ", ".join("%.3g" % v for v in rr)
    except Exception as e:  # noqa
        present, got = True, "raised %s: %s" % (type(e).__name__, e)
    out.append(dict(flag="gmres_mask_tol", present=present, witness="gmres(Dense(diag(1000,1,2,3)), b=[1,1,1,1], max_iters=3 and 4, tol=1e-3)", got=got,
                    expected="0.327, 0.115, ~1e-12 (non-increasing, zero at max_iters = n)",
                    what="gmres treats every column of H whose largest entry is <= 10*tol*max|H| as zero padding and forces its coefficient to 0 after the solve: with a "
                         "spread spectrum and tol >= ~1e-4 genuine Arnoldi columns are dropped, the residual is not minimal, grows with max_iters (0.327 -> 0.431 -> 0.445 on the witness) and is not zero at max_iters = n"))
    # the remainder is compared with the absolute tol/2 before normalisation
    Ms = 1e-6 * np.array([[2.0, 1.0], [1.0, 3.0]])
    try:
        x, _ = gmres(Dense(Ms), np.ones(2), max_iters=2, tol=1e-6)
        r = float(np.linalg.norm(np.ones(2) - Ms @ np.asarray(x)) / np.sqrt(2.0))
        present = bool(not np.isfinite(r) or r > 1e-8)
        got = "relative residual %.3g at max_iters = n = 2" % r
    except Exception as e:  # noqa
        present, got = True, "raised %s: %s" % (type(e).__name__, e)
    out.append(dict(flag="arnoldi_absolute_clip", present=present, witness="gmres(Dense(1e-6*[[2,1],[1,3]]), b=[1,1], max_iters=2, tol=1e-6)", got=got,
                    expected="relative residual ~1e-16 (as for the same matrix times 1e-3 or 1)",
                    what="arnoldi_fact normalises the next basis vector only when the remainder norm exceeds the ABSOLUTE tol/2: for an operator of small overall scale "
                         "(||A|| <~ tol) every remainder is below it, the basis stops after q_0 and gmres returns a residual of 0.14 instead of 1e-16 at max_iters = n"))
    # the documented 1-D x0 next to a right-hand side that arrives as (n, 1) through the lazy inverse
    A3 = np.array([[2.0, 1.0, 0.0], [1.0, 3.0, 1.0], [0.0, 1.0, 4.0]])
    b3 = np.array([1.0, 2.0, 3.0])
    try:
        x = np.asarray(cola.linalg.solve(Dense(A3), b3, cola.linalg.GMRES(x0=np.ones(3), max_iters=3)))
        present = bool(x.shape != (3,) or np.linalg.norm(A3 @ x - b3) > 1e-6)
        got = "result of shape %s" % (x.shape,)
    except Exception as e:  # noqa
        present, got = True, "raised %s: %s" % (type(e).__name__, str(e)[:80])
    out.append(dict(flag="iterative_x0_vector", present=present, witness="solve(Dense([[2,1,0],[1,3,1],[0,1,4]]), [1,2,3], GMRES(x0=ones(3), max_iters=3))", got=got,
                    expected="[0.3333, 0.3333, 0.6667]",
                    what="inv(A, GMRES(x0=v)) @ b / solve(A, b, GMRES(x0=v)) with the documented 1-D guess v fails: the lazy inverse hands gmres an (n,1) right-hand side and gmres reshapes x0 only for a 1-D one (broadcast to a wrong (n,n) result or ValueError)"))
    # the small least-squares problem through the normal equations H^H H (condition number squared)
    try:
        import os
        W = np.load(os.path.join(os.path.dirname(os.path.abspath(G.__file__)), "witness", "c13_clustered32.npz"))
        Aw, bw = W["A"], W["b"]
        rr = []
        for mw in (26, 32):
            x, _ = gmres(Dense(Aw), bw, max_iters=mw, tol=1e-12)
            rr.append(float(np.linalg.norm(bw - Aw @ np.asarray(x)) / np.linalg.norm(bw)))
        present = bool(not np.isfinite(rr[1]) or rr[1] > 1e-10)
        got = "relative residuals for max_iters=26, 32: %s" % ", ".join("%.3g" % v for v in rr)
    except Exception as e:  # noqa
        present, got = True, "raised %s: %s" % (type(e).__name__, str(e)[:80])
    out.append(dict(flag="gmres_normal_equations", present=present,
                    witness="gmres(Dense(A), b, max_iters=32, tol=1e-12) with A, b of harness/witness/c13_clustered32.npz (32x32 real normal matrix, three eigenvalue clusters of width 1%, cond 33)",
                    got=got, expected="6e-13, 4e-15 (non-increasing, zero to rounding at max_iters = n)",
                    what="gmres solves min ||beta e1 - H y|| through the regularised normal equations H^H H: once the single-pass Gram-Schmidt basis has lost orthogonality "
                         "(max_iters near n, clustered spectrum) cond(H) ~ 1e8, cond(H)^2 exceeds 1/eps, and the residual at max_iters = n is 1.1e-6 ||b|| although the "
                         "least-squares optimum of the same H is 1e-14 and the residual at max_iters = 26 was 6e-13"))
    return out


def gen_system(rs, sid, nmax, kexp, spread=False, wide_scale=False):
    n = int(rs.integers(6 if spread else 1, nmax + 1))
    cplx = bool(rs.random() < 0.4)
    if spread:       # widely spread spectra: outliers 300-1000x the bulk, graded, clustered; condition number 3e2 .. 1e4
        kind = G.SPREAD_KINDS[int(rs.integers(0, len(G.SPREAD_KINDS)))]
        kappa = float(10 ** rs.uniform(2.5, 4))
    else:
        kind = G.KINDS[int(rs.integers(0, len(G.KINDS)))]
        kappa = float(10 ** rs.uniform(0, kexp))
    A = G.make_matrix(rs, n, cplx, kind, kappa)
    if wide_scale:       # operators of any overall scale (only once the absolute tol/2 clip of arnoldi_fact is repaired)
        A = A * 10.0 ** rs.uniform(-8, 8)
    return dict(A=A, n=n, cplx=cplx, kind=kind, kappa=float(np.linalg.cond(A)), sys_id=sid)


def gen_rhs(rs, s, eig=False, zero_ok=False):
    n, cplx, A = s["n"], s["cplx"], s["A"]
    nc = int(rs.choice([1, 1, 2, 3]))
    if eig:
        w, Vv = np.linalg.eig(A)
        grade = int(rs.integers(1, min(3, n) + 1))
        B = np.zeros((n, nc), dtype=complex)
        for j in range(nc):
            idx = rs.choice(n, size=grade, replace=False)
            B[:, j] = Vv[:, idx] @ (rs.normal(size=grade) + 0j)
        if not cplx:
            if np.max(np.abs(B.imag)) > 1e-12:       # complex eigenvectors of a real matrix: use an invariant real plane
                B = np.real(B) + np.imag(B)
            B = np.real(B)
        rk = "eigvec(grade<=%d)" % grade
    else:
        B = rs.normal(size=(n, nc)) + (1j * rs.normal(size=(n, nc)) if cplx else 0)
        rk = "random"
    # absolute scale of every column spread over 22 orders of magnitude (the algorithm is scale-equivariant in b for
    # x0 = 0; absolute thresholds hidden in the code would show up here)
    B = B * 10.0 ** rs.uniform(-14, 8, size=(1, nc))
    x0kind = str(rs.choice(["none", "none", "zeros", "random", "random_scaled", "warm"]))
    rnd = rs.normal(size=(n, nc)) + (1j * rs.normal(size=(n, nc)) if cplx else 0)
    if x0kind in ("warm", "random_scaled"):
        Xs = np.linalg.solve(A, B)
        xn = np.linalg.norm(Xs, axis=0, keepdims=True) / np.sqrt(n)
        if x0kind == "warm":      # a warm start already accurate to 1e-12 .. 1e-6: the initial residual is tiny in absolute terms
            x0kind = "warm(%.0e)" % float(rel := rs.choice([1e-12, 1e-10, 1e-8, 1e-6]))
            X0 = Xs + rel * xn * rnd
        else:
            X0 = xn * rnd
    else:
        X0 = None if x0kind == "none" else (np.zeros_like(B) if x0kind == "zeros" else rnd)
    if X0 is not None:
        X0 = X0.astype(B.dtype)
    if zero_ok and nc > 1 and rs.random() < 0.2:      # a column with zero initial residual (only once that defect is repaired)
        j = int(rs.integers(0, nc))
        B[:, j] = 0
        if X0 is not None:
            X0[:, j] = 0
        rk += "+zero column"
    return dict(B=B, X0=X0, nc=nc, rhs=rk, x0kind=x0kind, vector_api=bool(nc == 1 and rs.random() < 0.5))


def describe(c, o=None):
    d = dict(n=c["n"], nc=c["nc"], complex=c["cplx"], kind=c["kind"], kappa=c["kappa"], rhs=c["rhs"], x0=c["x0kind"], tol=c["tol"],
             max_iters=c["m"], vector_api=c["vector_api"], stream=c.get("stream"))
    if c["n"] <= 6:
        d.update(A=c["A"].tolist(), B=c["B"].tolist(), X0=None if c["X0"] is None else c["X0"].tolist())
    if o is not None:
        d["observed"] = dict(ok=o.get("ok"), err=o.get("err"), products=o.get("products"), x=(o["x"].tolist() if o.get("ok") and c["n"] <= 6 else None))
    return core_json(d)


def core_json(x):
    if isinstance(x, dict):
        return {k: core_json(v) for k, v in x.items()}
    if isinstance(x, (list, tuple)):
        return [core_json(v) for v in x]
    if isinstance(x, complex):
        return [x.real, x.imag]
    if isinstance(x, (np.floating, np.integer, np.bool_)):
        return x.item()
    return x


def dump_case(c, o):
    import os, pickle
    d = os.environ.get("VERIF_DUMP")
    if d:
        os.makedirs(d, exist_ok=True)
        k = len(os.listdir(d))
        with open(os.path.join(d, "case_%d.pkl" % k), "wb") as f:
            pickle.dump((c, o), f)


def gen_tol(rs):
    """tolerances from 1e-12 to 1e-3, the two defaults (1e-7 of gmres(), 1e-6 of GMRES()) drawn often"""
    u = rs.random()
    return 1e-7 if u < 0.2 else (1e-6 if u < 0.35 else float(10 ** rs.uniform(-12, -3)))


def run(ctx):
    fnd = findings()
    flags = {f["flag"]: bool(f["present"]) for f in fnd}
    sq = flags.get("gmres_square_H", False)
    zero_ok = not flags.get("gmres_zero_residual_nan", True)
    wide = not flags.get("arnoldi_absolute_clip", True)
    rs = L.np_rng(ctx)
    nmax = ctx.budget(10, 16)
    cases, sid = [], 0
    for _ in range(ctx.budget(90, 600)):          # stream 1: random right-hand sides, m below / at / beyond n
        s = gen_system(rs, sid, nmax, 1.5, wide_scale=wide)
        sid += 1
        r = gen_rhs(rs, s, zero_ok=zero_ok)
        n = s["n"]
        ms = sorted(set([1, n, n + int(rs.integers(1, 5))] + [int(x) for x in rs.integers(1, n + 1, size=3)]))
        tol = gen_tol(rs)
        for m in ms:
            cases.append(dict(s, **r, m=m, tol=tol, stream="random_rhs"))
    for _ in range(ctx.budget(60, 400)):          # stream 1b: widely spread spectra (condition number up to 1e4), m >= 5
        s = gen_system(rs, sid, ctx.budget(14, 24), 0, spread=True, wide_scale=wide)
        sid += 1
        r = gen_rhs(rs, s, zero_ok=zero_ok)
        n = s["n"]
        ms = sorted(set([n, n + 2] + [int(x) for x in rs.integers(5, n + 1, size=3)]))
        tol = gen_tol(rs)
        for m in ms:
            cases.append(dict(s, **r, m=m, tol=tol, stream="spread_spectrum"))
    for _ in range(ctx.budget(50, 350)):          # stream 2: eigenvector right-hand sides (early breakdown)
        s = gen_system(rs, sid, nmax, 1.5, wide_scale=wide)
        sid += 1
        r = gen_rhs(rs, s, eig=True, zero_ok=zero_ok)
        n = s["n"]
        tol = gen_tol(rs)
        for m in sorted(set([1, 2, 3, n, n + 2, int(rs.integers(1, n + 4))])):
            cases.append(dict(s, **r, m=m, tol=tol, stream="eigvec_rhs"))
    obs = [G.run_impl(c) for c in cases]
    stab = [G.stability(c, flags) for c in cases]
    diags = [G.diagnostics(c, flags) for c in cases]
    # (max_iters > n stays in the comparison on a repaired tree too: the model with gmres_square_H cleared keeps the
    # (m+1) x m buffer and masks per column, which makes zero-padded columns inert)
    def modelled(c, dg):
        # on the pinned tree the steps taken after a column's breakdown work on rounding noise divided by tol/2: not comparable
        # entry-wise (on the repaired tree the column becomes exactly zero and the stability filter decides)
        if flags.get("arnoldi_breakdown_continues") and any(dg["overrun"]):
            return False
        return True
    good = [o.get("ok") and st["same_steps"] and st["dev_x"] <= 1e-12 and modelled(c, dg) for c, o, st, dg in zip(cases, obs, stab, diags)]
    stable = [i for i, st in enumerate(stab) if good[i] and st["min_margin"] >= 1e-5]
    near = [i for i, st in enumerate(stab) if good[i] and st["min_margin"] < 1e-5]
    items = [(cases[i], obs[i]) for i in stable]
    mism = []
    failing, err = G.eval_in_coq("c13", items, flags)
    if err:
        mism.append(dict(oracle_fail=False, harness_error=err))
        failing = []
    failset = {stable[i] for i in failing}
    minres_checked = exhausted = attributed = early = 0
    ratio_worst = [0.0]
    excess_worst = [0.0]
    for i, (c, o) in enumerate(zip(cases, obs)):
        bad, info = G.oracle(c, o, flags)
        minres_checked += info.get("minres_checked", 0)
        exhausted += info.get("exhausted", 0)
        attributed += info.get("attributed_exception", 0)
        early += info.get("early_breakdown", 0)
        ratio_worst[0] = max(ratio_worst[0], info.get("ratio_worst", 0.0))
        excess_worst[0] = max(excess_worst[0], info.get("excess_worst", 0.0))
        if bad or i in failset:
            mism.append(dict(oracle_fail=bool(bad), case=describe(c, o), failed_clauses=bad, model_disagrees=(i in failset)))
            dump_case(c, o)
    # stream 3: larger systems, oracle only
    large = 0
    for _ in range(ctx.budget(30, 200)):
        s = gen_system(rs, sid, 1, 3)
        sid += 1
        n = int(rs.integers(20, ctx.budget(80, 150) + 1))
        cplx = s["cplx"]
        kindL = str(rs.choice(list(G.KINDS) + list(G.SPREAD_KINDS)))
        A = G.make_matrix(rs, n, cplx, kindL, float(10 ** rs.uniform(0, 3.7)))
        s = dict(s, A=A, n=n, kind=kindL, kappa=float(np.linalg.cond(A)))
        r = gen_rhs(rs, s, eig=bool(rs.random() < 0.3), zero_ok=zero_ok)
        c = dict(s, **r, m=int(rs.choice([n, n + 5, int(rs.integers(1, n + 1))])), tol=gen_tol(rs), stream="large")
        o = G.run_impl(c)
        bad, info = G.oracle(c, o, flags)
        minres_checked += info.get("minres_checked", 0)
        exhausted += info.get("exhausted", 0)
        attributed += info.get("attributed_exception", 0)
        early += info.get("early_breakdown", 0)
        large += 1
        cases.append(c)
        obs.append(o)
        if bad:
            mism.append(dict(oracle_fail=True, case=describe(c, o), failed_clauses=bad, model_disagrees=False))
            dump_case(c, o)
    # stream 4: mixed dtypes between operator, right-hand side and guess (complex/real, float64/float32 in every combination),
    # the caller's x0 snapshotted before and after the call, and one algorithm object / lazy inverse reused for two solves
    from cola.linalg.inverse.gmres import gmres as _gmres, GMRES as _GMRES
    DTS = [np.float32, np.float64, np.complex64, np.complex128]
    mixed = reuse = 0

    def mixed_fail(desc, clauses):
        mism.append(dict(oracle_fail=True, case=core_json(desc), failed_clauses=clauses, model_disagrees=False))

    def minres_ok(Ad, b, x0, x, m, epsmix, tolv, kap):
        """clauses of the property on one column, computed in complex128"""
        Ac, bc, x0c, xc = Ad.astype(complex), b.astype(complex), x0.astype(complex), np.asarray(x).astype(complex)
        if not np.all(np.isfinite(xc)):
            return ["non-finite solution"]
        r0n = float(np.linalg.norm(bc - Ac @ x0c))
        res = float(np.linalg.norm(bc - Ac @ xc))
        _, ro, _ = G.ls_optimum(Ac, bc, x0c, m)
        floor = 1e3 * epsmix * (float(np.linalg.norm(Ac, 2)) * float(np.linalg.norm(xc) + np.linalg.norm(x0c)) + float(np.linalg.norm(bc)))
        slack = (1e-6 + 1e3 * epsmix * kap * kap + 30 * tolv * kap) * r0n + floor
        out = []
        if res > ro * (1 + 1e-6) + slack:
            out.append("residual %.6e exceeds the least-squares optimum %.6e over x0+K_%d (||r0||=%.3e)" % (res, ro, m, r0n))
        return out
    for _ in range(ctx.budget(120, 700)):
        n = int(rs.integers(2, 10))
        dA, dB, dX = [DTS[int(rs.integers(0, 4))] for _k in range(3)]
        cA = np.issubdtype(dA, np.complexfloating)
        Ad = G.make_matrix(rs, n, cA, G.KINDS[int(rs.integers(0, len(G.KINDS)))], float(10 ** rs.uniform(0, 1.2))).astype(dA)
        kap = float(np.linalg.cond(Ad.astype(complex)))
        nc = int(rs.choice([1, 1, 2, 3]))
        mk = lambda dt, shape: (rs.normal(size=shape) + (1j * rs.normal(size=shape) if np.issubdtype(dt, np.complexfloating) else 0)).astype(dt)
        B = mk(dB, (n, nc))
        X0 = mk(dX, (n, nc)) if rs.random() < 0.6 else None
        if rs.random() < 0.15 and X0 is not None:
            B[:, 0] = (Ad.astype(complex) @ X0[:, 0].astype(complex)).astype(dB) if np.issubdtype(dB, np.complexfloating) or not (cA or np.issubdtype(dX, np.complexfloating)) else B[:, 0]
        m = int(rs.choice([n, n + 2, int(rs.integers(1, n + 1))]))
        tolv = 1e-7
        single = any(np.dtype(d).itemsize <= (8 if np.issubdtype(d, np.complexfloating) else 4) for d in ([dA, dB] + ([dX] if X0 is not None else [])))
        epsmix = 1.2e-7 if single else 2.2e-16
        vec = bool(nc == 1 and rs.random() < 0.5)
        b_in = B[:, 0].copy() if vec else B.copy()
        x_in = None if X0 is None else (X0[:, 0].copy() if vec else X0.copy())
        snap = None if x_in is None else (x_in.copy(), x_in.dtype, x_in.shape)
        desc = dict(n=n, nc=nc, dtypes=dict(A=np.dtype(dA).name, b=np.dtype(dB).name, x0=None if X0 is None else np.dtype(dX).name), max_iters=m, vector_api=vec,
                    A=Ad.tolist() if n <= 4 else None, B=B.tolist() if n <= 4 else None, X0=None if (X0 is None or n > 4) else X0.tolist(), stream="mixed_dtypes")
        mixed += 1
        try:
            with np.errstate(all="ignore"):
                x, _ = _gmres(Dense(Ad), b_in, x0=x_in, max_iters=m, tol=tolv)
            x = np.asarray(x)
            bad = []
            if x.shape != b_in.shape:
                bad.append("shape %s of the solution, %s expected" % (x.shape, b_in.shape))
            else:
                if snap is not None and not (x_in.dtype == snap[1] and x_in.shape == snap[2] and np.array_equal(x_in, snap[0])):
                    bad.append("the caller's x0 array was modified by gmres")
                Xs = x.reshape(n, nc)
                for j in range(nc):
                    x0j = np.zeros(n, dtype=complex) if X0 is None else X0[:, j]
                    bad += ["column %d: %s" % (j, t) for t in minres_ok(Ad, B[:, j], x0j, Xs[:, j], m, epsmix, tolv, kap)]
            if bad:
                mixed_fail(desc, bad)
        except Exception as e:  # noqa
            mixed_fail(desc, ["raised %s: %s" % (type(e).__name__, str(e)[:120])])
    # one GMRES(x0=...) object, and one lazy inverse built from it, used for two different right-hand sides
    for _ in range(ctx.budget(40, 250)):
        n = int(rs.integers(2, 10))
        cplx = bool(rs.random() < 0.4)
        Ad = G.make_matrix(rs, n, cplx, G.KINDS[int(rs.integers(0, len(G.KINDS)))], float(10 ** rs.uniform(0, 1.2)))
        kap = float(np.linalg.cond(Ad))
        mk = lambda shape: (rs.normal(size=shape) + (1j * rs.normal(size=shape) if cplx else 0)).astype(Ad.dtype)
        vec = bool(rs.random() < 0.5)
        nc = 1
        x0 = mk((n,) if vec else (n, 1))
        b1, b2 = mk((n,) if vec else (n, 1)), mk((n,) if vec else (n, 1))
        m = int(rs.integers(1, n))
        keep = x0.copy()
        alg = _GMRES(x0=x0, max_iters=m, tol=1e-7)
        desc = dict(n=n, complex=cplx, max_iters=m, vector_api=vec, A=Ad.tolist() if n <= 4 else None, stream="reused_algorithm")
        reuse += 1
        try:
            via = str(rs.choice(["solve", "inv"]))
            if via == "solve":
                y1 = np.asarray(cola.linalg.solve(Dense(Ad), b1, alg))
                y2 = np.asarray(cola.linalg.solve(Dense(Ad), b2, alg))
            else:
                Iop = cola.linalg.inv(Dense(Ad), alg)
                y1 = np.asarray(Iop @ b1)
                y2 = np.asarray(Iop @ b2)
            bad = []
            if not np.array_equal(x0, keep):
                bad.append("the x0 stored in the GMRES object was overwritten by a solve (%s path)" % via)
            for name, yy, bb in (("first", y1, b1), ("second", y2, b2)):
                bad += ["%s solve: %s" % (name, t) for t in minres_ok(Ad, bb.reshape(-1), keep.reshape(-1), yy.reshape(-1), m, 2.2e-16, 1e-7, kap)]
            if bad:
                mixed_fail(dict(desc, via=via), bad)
        except Exception as e:  # noqa
            mixed_fail(desc, ["raised %s: %s" % (type(e).__name__, str(e)[:120])])
    # monotonicity in m (meaningful only once the iterate is the minimiser) and the inv(A, GMRES(...)) @ b entry point
    mono, invpath = 0, 0
    by_sys = {}
    for c, o in zip(cases, obs):
        if o.get("ok") and c["stream"] != "large":
            by_sys.setdefault(c["sys_id"], []).append((c, o))
    if not sq:
        for lst in by_sys.values():
            lst.sort(key=lambda co: co[0]["m"])
            prev = None
            for c, o in lst:
                # runs that go on after a column's breakdown belong to the recorded defect arnoldi_breakdown_continues
                if flags.get("arnoldi_breakdown_continues") and any(G.diagnostics(c, flags)["overrun"]):
                    continue
                X0 = c["X0"] if c["X0"] is not None else np.zeros_like(c["B"])
                res = np.linalg.norm(c["B"] - c["A"] @ o["x"], axis=0)
                r0 = np.linalg.norm(c["B"] - c["A"] @ X0, axis=0)
                # same allowances as the minimal-residual clause: caller's tol and the accuracy attainable in binary64
                floor = 200 * 2.2e-16 * (np.linalg.norm(c["A"], 2) * np.linalg.norm(o["x"], axis=0) + np.linalg.norm(c["B"], axis=0))
                if prev is not None:
                    mono += 1
                    dg = G.diagnostics(c, flags)
                    if (flags.get("gmres_mask_tol") and any(dg["masked_genuine"])) or (flags.get("arnoldi_absolute_clip") and any(dg["abs_clip"])):
                        prev = None
                        continue
                    early_stop = 0 <= dg["steps"] < min(c["m"], c["n"]) or any(dg["overrun"])
                    if np.any(res > prev * (1 + 1e-6) + (1e-6 + 1e-11 * c["kappa"] ** 2 + (30 * c["tol"] * c["kappa"] if early_stop else 0)) * r0 + floor):
                        mism.append(dict(oracle_fail=True, case=describe(c, o), failed_clauses=["residual increases with max_iters: %s after %s" % (res.tolist(), prev.tolist())], model_disagrees=False))
                        dump_case(c, o)
                prev = res
    for c, o in list(zip(cases, obs))[:ctx.budget(120, 800)]:
        if o.get("ok") and (c["X0"] is None or not c["vector_api"] or not flags.get("iterative_x0_vector", True)):
            o3 = G.run_impl(c, via_inv=True)
            invpath += 1
            if not (o3.get("ok") and np.array_equal(o3["x"], o["x"]) and o3["products"] == o["products"]):
                mism.append(dict(oracle_fail=True, case=describe(c, o3), failed_clauses=["inv(A, GMRES(...)) @ b differs from gmres(A, b, ...)"], model_disagrees=False))

    def hist(key, sel=None):
        h = {}
        for c in cases:
            v = c[key] if sel is None else sel(c)
            h[str(v)] = h.get(str(v), 0) + 1
        return h
    nontriv = {core.digest((c["sys_id"], c["m"])) for c, o in zip(cases, obs) if o.get("ok") and c["n"] >= 2 and o["steps"] >= 1}
    return dict(
        evaluations=len(cases) + invpath + mixed + reuse, distinct_nontrivial=len(nontriv),
        rule="invertible systems of 6 kinds (shifted Gaussian, normal, non-normal with prescribed singular values, SPD, scaled unitary, triangular), real/complex, "
             "n 1..%d in Coq (kappa <= 30; plus spread spectra - outliers 300-1000x the bulk, graded, clustered - with kappa 3e2..1e4, n 6..14/24, m >= 5) and 20..%d oracle-only (kappa <= 5e3), 1-3 columns with absolute scales 1e-14..1e8, random and eigenvector right-hand sides (grade 1-3), x0 none/zero/random/warm start accurate to 1e-12..1e-6, "
             "max_iters from 1 to n+4, tol 1e-12..1e-3 with the defaults 1e-7 / 1e-6 drawn often; non-trivial = n>=2 and at least one Arnoldi step; distinct by (system, max_iters)" % (nmax, ctx.budget(80, 150)),
        samples=[describe(c, o) for c, o in list(zip(cases, obs))[:3]], mismatches=mism, findings=fnd,
        extra=dict(compared_in_coq=len(items), near_tie=len(near), skipped_unstable=len(cases) - large - len(items) - len(near),
                   minres_clauses_checked=minres_checked, krylov_space_exhausted_columns=exhausted, large_oracle_only=large,
                   monotonicity_pairs=mono, inv_entry_point=invpath, mixed_dtype_cases=mixed, reused_algorithm_cases=reuse, impl_exceptions=sum(1 for o in obs if not o.get("ok")),
                   exceptions_attributed_to_flags=attributed, early_breakdown_cases=early,
                   worst_final_over_initial_residual_where_checked=ratio_worst[0], worst_excess_over_optimum_where_checked=excess_worst[0],
                   tol_decades=hist(None, lambda c: int(np.floor(np.log10(c["tol"])))), kappa_decades=hist(None, lambda c: int(np.floor(np.log10(max(c["kappa"], 1))))),
                   rhs_scale_decades=hist(None, lambda c: int(np.floor(np.log10(max(float(np.max(np.abs(c["B"]))), 1e-300))))),
                   m_lt_n=sum(1 for c in cases if c["m"] < c["n"]), m_eq_n=sum(1 for c in cases if c["m"] == c["n"]), m_gt_n=sum(1 for c in cases if c["m"] > c["n"]),
                   kind_histogram=hist("kind"), rhs_histogram=hist("rhs"), x0_histogram=hist("x0kind"), columns_histogram=hist("nc"),
                   complex_cases=sum(1 for c in cases if c["cplx"]), stream_histogram=hist("stream"), flags_used_by_model=flags))
