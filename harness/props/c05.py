"""C05 - reported structural annotations are true of the represented matrix (DESIGN.md section 5, C05)."""
import warnings
import re
import numpy as np
import opcases as O
import trees as T
import core
from props import c01

TRUSTED_BASE = [
    "Coq 8.16.1 kernel + vm_compute; C05 theorems closed under the global context (no axioms); positivity enters as an abstract predicate `nonneg` with closure hypotheses",
    "hand-written model coq/C05_Annot.v of cola/annotations.py (get_annotations rules, raw-set intersections, declaration wrapper) tied to /repo by this correspondence check on A.annotations",
    "harness: trees.py, this generator of annotated trees with TRUE declarations (truth decided numerically on the dense matrix), numpy eigvalsh/orthonormality oracle",
]
ASSUMPTIONS = [
    "PSD is taken in weighted Gram form G^H diag(d) G with d >= 0 (the direction PSD => Hermitian with non-negative quadratic form is proved; the converse is the spectral theorem, not proved)",
    "annotations attached by library routines to their outputs (lanczos, arnoldi, eig, svd) are probed on the implementation, not derived from the Krylov theorems",
]
NAMES = ["SelfAdjoint", "PSD", "Stiefel", "Unitary"]
COQN = dict(SelfAdjoint="SA", PSD="PSD", Stiefel="St", Unitary="Un")
HEADER = ("From Coq Require Import ZArith List Bool Arith.\nFrom Core Require Import Base Kron Op ZIInst C05_Annot.\nImport ListNotations.\n"
          "Definition beq (a b : list bool) := Nat.eqb (List.length a) (List.length b) && forallb (fun p => Bool.eqb (fst p) (snd p)) (combine a b).\n"
          "Fixpoint failing2 (fl : flags) (i : nat) (cs : list (aop (R:=zi) * list bool)) : list nat :=\n"
          "  match cs with [] => [] | c :: r => if beq (norm (infer fl (fst c))) (snd c) then failing2 fl (S i) r else i :: failing2 fl (S i) r end.\n")


def truth(D):
    """which annotations are true of the dense matrix D (exact small integers -> robust thresholds)"""
    m, n = D.shape
    out = set()
    if m == n and np.array_equal(D, D.conj().T):
        out.add("SelfAdjoint")
        if np.linalg.eigvalsh(D).min() > -1e-9 * max(1.0, np.abs(D).max()):
            out.add("PSD")
    if np.allclose(D.conj().T @ D, np.eye(n), atol=1e-12):
        out.add("Stiefel")
        if m == n:
            out.add("Unitary")
    return out


def same_sel(rs, cs, ia=False):
    """value of the test `slices[0] == slices[1]` of the Sliced annotation rule for the selectors built from rs / cs
    (arithmetic progressions are built as python slices, other lists as integer arrays)"""
    a, b = (None, None) if ia else (T.range_slice(rs), T.range_slice(cs))
    if a is not None and b is not None:
        return a == b
    if a is None and b is None:
        return len(rs) == len(cs) and list(rs) == list(cs)
    return False


def _sel(idx, ia=False):
    s_ = T.range_slice(idx)
    return s_ if (s_ is not None and not ia) else np.array(idx, dtype=np.int64)


class AGen:
    index_arrays = True

    def __init__(self, rnd, gen):
        self.rnd, self.gen = rnd, gen

    def special_leaf(self, cplx):
        r = self.rnd
        kind = r.choice(["psd", "sa", "unitary", "stiefel", "plain", "ident", "perm", "scal"])
        if cplx and r.random() < 0.06:
            return T.near_real_tree(self.gen, r)      # almost-real complex payloads (not Hermitian): tolerance-based inference must not fire
        dt = self.gen.dt(cplx)
        n = r.randint(1, 3)
        if kind == "psd":
            G = np.array([[complex(*self.gen.val(dt)) for _ in range(n)] for _ in range(r.randint(1, 3))])
            M = G.conj().T @ G
        elif kind == "sa":
            B = np.array([[complex(*self.gen.val(dt)) for _ in range(n)] for _ in range(n)])
            M = B + B.conj().T
        elif kind in ("unitary", "stiefel"):
            p = list(range(n))
            r.shuffle(p)
            units = [1, -1] + ([1j, -1j] if dt in T.CPLX else [])
            M = np.zeros((n, n), dtype=complex)
            for i, pi in enumerate(p):
                M[i, pi] = r.choice(units)
            if kind == "stiefel" and n > 1:
                M = M[:, :r.randint(1, n - 1)]
        elif kind == "ident":
            return dict(k="Ident", dt=dt, n=n)
        elif kind == "perm":
            p = list(range(n))
            r.shuffle(p)
            return dict(k="Perm", dt=dt, p=p)
        elif kind == "scal":
            return dict(k="Scal", dt=dt, c=r.choice([[1, 0], [-1, 0], [2, 0], [0, 1] if dt in T.CPLX else [3, 0]]), n=n)
        else:
            return self.gen.leaf((n, r.randint(1, 3)), cplx)
        return dict(k="Dense", dt=dt, a=[[[int(v.real), int(v.imag)] for v in row] for row in M])

    def decl_for(self, tree_dense):
        tr = sorted(truth(tree_dense))
        return [a for a in tr if self.rnd.random() < 0.6]

    def node(self, depth, cplx):
        """returns (anode, tree) where tree is the plain trees.py tree of the same operator"""
        r = self.rnd
        if depth <= 0 or r.random() < 0.25:
            t = self.special_leaf(cplx)
            return dict(x="leaf", tree=t, decl=self.decl_for(T.dense(t))), t
        o = r.choice(["sum", "prod", "prod", "gram", "gram", "gram3", "kron", "bdiag", "transp", "adj", "sliced", "sliced", "scalprod"])
        d = depth - 1
        if o == "sum":
            a, ta = self.node(d, cplx)
            for _ in range(10):
                b, tb = self.node(d, cplx)
                if T.shape(tb) == T.shape(ta):
                    break
            else:
                b, tb = a, ta
            an, t = dict(x="sum", ms=[a, b]), dict(k="Sum", ms=[ta, tb])
        elif o == "prod":
            a, ta = self.node(d, cplx)
            for _ in range(10):
                b, tb = self.node(d, cplx)
                if T.shape(tb)[0] == T.shape(ta)[1]:
                    break
            else:
                return a, ta
            an, t = dict(x="prod", ms=[a, b]), dict(k="Prod", ms=[ta, tb])
        elif o == "scalprod":
            a, ta = self.node(d, cplx)
            dt = O.leaf_dts(ta)[0]
            c = r.choice([[-1, 0], [2, 0], [1, 0], [-2, 0]] + ([[0, 1], [1, 1]] if dt in T.CPLX else []))
            s = dict(k="Scal", dt=dt, c=c, n=T.shape(ta)[0])
            an, t = dict(x="prod", ms=[dict(x="leaf", tree=s, decl=[]), a]), dict(k="Prod", ms=[s, ta])
        elif o == "gram3":
            # Product(W(a), a, b, ...) / Product(b, W(a), a): three or more factors sharing the SAME object a
            a, ta = self.node(d, cplx)
            adj = r.random() < 0.5
            w = dict(k="Adj" if adj else "Transp", a=ta)
            k_ = T.shape(ta)[1]
            for _ in range(10):
                b, tb = self.node(d, cplx)
                if T.shape(tb)[0] == k_:
                    break
            else:
                return a, ta
            wn = dict(x="adj" if adj else "transp", a=a, decl=[])
            if r.random() < 0.7:
                an, t = dict(x="prod", ms=[wn, a, b], share=(0, 1)), dict(k="Prod", ms=[w, ta, tb])
            else:
                for _ in range(10):
                    c, tc = self.node(d, cplx)
                    if T.shape(tc)[1] == k_:
                        break
                else:
                    return a, ta
                an, t = dict(x="prod", ms=[c, wn, a], share=(1, 2)), dict(k="Prod", ms=[tc, w, ta])
        elif o == "gram":
            a, ta = self.node(d, cplx)
            if r.random() < 0.35:      # the shared operand is itself a lazy Adjoint / Transpose: W1(W2(K)) @ W2(K) in all four combinations
                w2 = r.choice(["transp", "adj"])
                a, ta = dict(x=w2, a=a, decl=[]), dict(k="Transp" if w2 == "transp" else "Adj", a=ta)
            adj, left = r.random() < 0.5, r.random() < 0.5
            w = dict(k="Adj" if adj else "Transp", a=ta)
            isreal = not any(x in T.CPLX for x in O.leaf_dts(ta))
            an = dict(x="gram", adj=adj, left=left, isreal=isreal, a=a)
            t = dict(k="Prod", ms=[w, ta] if left else [ta, w])
        elif o == "kron":
            a, ta = self.node(d, cplx)
            b, tb = self.node(d, cplx)
            an, t = dict(x="kron", ms=[a, b]), dict(k="Kron", ms=[ta, tb])
        elif o == "bdiag":
            a, ta = self.node(d, cplx)
            b, tb = self.node(d, cplx)
            mu = [r.randint(1, 2), r.randint(1, 2)]
            an, t = dict(x="bdiag", ms=[a, b], mu=mu), dict(k="BDiag", ms=[ta, tb], mu=mu)
        elif o in ("transp", "adj"):
            a, ta = self.node(d, cplx)
            an, t = dict(x=o, a=a), dict(k="Transp" if o == "transp" else "Adj", a=ta)
        else:
            a, ta = self.node(d, cplx)
            m, n = T.shape(ta)
            if r.random() < 0.6 and m == n:
                k = r.randint(1, m)
                st = r.randint(0, m - k)
                rs = cs = list(range(st, st + k))
                u_ = r.random()
                if u_ < 0.25 and k > 1:      # same index set, one axis reversed: NOT the same slice
                    cs = list(reversed(rs))
                    if T.range_slice(cs) is None:
                        cs = rs
                elif u_ < 0.4 and k > 1:     # both axes reversed: equal slices again
                    rs = cs = list(reversed(rs))
                    if T.range_slice(rs) is None:
                        rs = cs = list(range(st, st + k))
            else:
                rs = list(range(0, r.randint(1, m)))
                cs = list(range(r.randint(0, n - 1), n))
            ia = False
            if self.index_arrays and m == n and m >= 2 and r.random() < 0.4:
                # integer index arrays (distinct indices in arbitrary order): equal arrays, or the same index set in another order
                ia = True
                k = r.randint(2, m)
                rs = r.sample(range(m), k)
                cs = list(rs) if r.random() < 0.4 else r.sample(rs, k)
            an, t = dict(x="sliced", a=a, rs=rs, cs=cs, ia=ia, same=same_sel(rs, cs, ia)), dict(k="Sliced", a=ta, rs=rs, cs=cs, ia=ia)
        an["decl"] = self.decl_for(T.dense(t)) if r.random() < 0.4 else []
        return an, t


ALTERED = []


def scal_in_prod(t):
    """some Product node of the tree has a ScalarMul factor"""
    if t["k"] == "Prod" and any(m["k"] == "Scal" for m in t["ms"]):
        return True
    return any(scal_in_prod(y) for y in (t.get("ms") or ([t["a"]] if isinstance(t.get("a"), dict) else [])))


def build(an):
    """annotated node -> cola operator built with constructors + declaration wrappers"""
    import cola
    from cola import ops
    x = an["x"]
    if x == "leaf":
        A = T.build(an["tree"])
    elif x == "sum":
        A = ops.Sum(*[build(c) for c in an["ms"]])
    elif x == "prod" and an.get("share"):
        i_, j_ = an["share"]                       # ms[i_] wraps the very object ms[j_]
        objs = [None] * len(an["ms"])
        objs[j_] = build(an["ms"][j_])
        objs[i_] = ops.Adjoint(objs[j_]) if an["ms"][i_]["x"] == "adj" else ops.Transpose(objs[j_])
        for q, c in enumerate(an["ms"]):
            if objs[q] is None:
                objs[q] = build(c)
        A = ops.Product(*objs)
    elif x == "prod":
        A = ops.Product(*[build(c) for c in an["ms"]])
    elif x == "gram":
        a = build(an["a"])
        w = ops.Adjoint(a) if an["adj"] else ops.Transpose(a)
        A = ops.Product(w, a) if an["left"] else ops.Product(a, w)
    elif x == "kron":
        A = ops.Kronecker(*[build(c) for c in an["ms"]])
    elif x == "bdiag":
        A = ops.BlockDiag(*[build(c) for c in an["ms"]], multiplicities=list(an["mu"]))
    elif x == "transp":
        A = ops.Transpose(build(an["a"]))
    elif x == "adj":
        A = ops.Adjoint(build(an["a"]))
    elif x == "sliced":
        A = ops.Sliced(build(an["a"]), (_sel(an["rs"], an.get("ia")), _sel(an["cs"], an.get("ia"))))
    for d in an.get("decl", []):
        before = set(A.annotations)
        B = getattr(cola, d)(A)
        if set(A.annotations) != before:       # "declaring a property ... does not alter the operator it was applied to"
            ALTERED.append(f"{d}(...) changed the annotations of its operand from {sorted(a.__name__ for a in before)} to {sorted(a.__name__ for a in A.annotations)}")
        A = B
    return A


def aset(l):
    return "[" + ";".join(COQN[a] for a in l) + "]"


def coq(an):
    x = an["x"]
    d = aset(an.get("decl", []))
    b = lambda v: "true" if v else "false"
    if x == "leaf":
        return f"XLeaf ({T.coq(an['tree'])}) {d}"
    if x in ("sum", "prod", "kron"):
        c = dict(sum="XSum", prod="XProd", kron="XKron")[x]
        return f"{c} [" + ";".join("(" + coq(y) + ")" for y in an["ms"]) + f"] {d}"
    if x == "gram":
        return f"XGram {b(an['adj'])} {b(an['left'])} {b(an['isreal'])} ({coq(an['a'])}) {d}"
    if x == "bdiag":
        return "XBDiag [" + ";".join(f"(({coq(y)}), {mu}%nat)" for y, mu in zip(an["ms"], an["mu"])) + f"] {d}"
    if x in ("transp", "adj"):
        return f"{'XTransp' if x == 'transp' else 'XAdj'} ({coq(an['a'])}) {d}"
    if x == "sliced":
        return f"XSliced ({coq(an['a'])}) {T.nlist(an['rs'])} {T.nlist(an['cs'])} {b(an['same'])} {d}"
    raise AssertionError(x)


def findings():
    import cola
    from cola import ops
    out = []

    def probe(flag, what, fn, witness):
        try:
            present, got = fn()
        except Exception as e:
            present, got = False, f"not reachable: raised {type(e).__name__}: {str(e)[:100]}"
        out.append(dict(flag=flag, present=bool(present), what=what, witness=witness, got=str(got)))
    S = np.array([[2., 1.], [1., 2.]])
    Kc = np.array([[1, 1j], [0, 1]])

    probe("scalar_keeps_annotations", "a Product with a single non-scalar factor inherits all its annotations: (-1)*PSD(S) reports PSD, 2*Unitary(U) reports Unitary",
          lambda: ((lambda A: (A.isa(cola.PSD), A.annotations))(-1 * cola.PSD(ops.Dense(S)))), "(-1 * PSD(Dense([[2,1],[1,2]]))).annotations")
    probe("transpose_keeps_stiefel", "Transpose/Adjoint pass Stiefel through: Stiefel(K).H reports Stiefel for a 2x1 K",
          lambda: ((lambda A: (A.isa(cola.Stiefel), A.annotations))(ops.Adjoint(cola.Stiefel(ops.Dense(np.array([[1.], [0.]])))))), "Adjoint(Stiefel(Dense([[1],[0]]))).annotations")

    def ata():
        K = ops.Sum(ops.Dense(Kc), ops.Dense(0 * Kc))   # a kind whose .T is a lazy Transpose
        P = ops.Product(ops.Transpose(K), K)
        return P.isa(cola.PSD) and "PSD" not in truth(Kc.T @ Kc), P.annotations
    probe("ATA_psd_for_complex_transpose", "Product(Transpose(K), K) is inferred PSD for complex K (K^T K is not Hermitian)", ata, "Product(Transpose(K),K).annotations for K=[[1,1j],[0,1]]")

    def lanczos_q():
        from cola.linalg.decompositions.lanczos import lanczos
        A = cola.SelfAdjoint(ops.Dense(np.diag([1., 2., 3., 4.])))
        Q, Tm, info = lanczos(A, np.ones(4), max_iters=2)
        return Q.isa(cola.Unitary) and Q.shape[0] != Q.shape[1], (Q.shape, Q.annotations)
    probe("lanczos_Q_unitary", "lanczos declares its n x k basis Q Unitary (only Stiefel holds for k<n)", lanczos_q, "lanczos(SelfAdjoint(diag(1,2,3,4)), ones(4), max_iters=2)[0].annotations")

    def eig_tri():
        bad = []
        for lower in (True, False):
            Tm = np.array([[1., 0.], [3., 2.]]) if lower else np.array([[1., 3.], [0., 2.]])
            lam, V = cola.linalg.eig(ops.Triangular(Tm, lower=lower), 2)
            D = np.asarray(V.to_dense())
            if (V.isa(cola.Unitary) and "Unitary" not in truth(D)) or (V.isa(cola.Stiefel) and "Stiefel" not in truth(D)):
                bad.append(("lower" if lower else "upper", sorted(map(str, V.annotations))))
        return bool(bad), bad
    probe("eig_triangular_unitary", "eig(Triangular) declares the (non-orthogonal) eigenvector matrix Unitary", eig_tri, "eig(Triangular([[1,3],[0,2]],lower=False),2)[1].annotations")

    def eig_slice():
        bad = []
        for nm, A in (("Diagonal", ops.Diagonal(np.array([1., 2., 3.]))), ("Identity", ops.Identity((3, 3), np.float64))):
            lam, V = cola.linalg.eig(A, 2)
            D = np.asarray(V.to_dense())
            if V.isa(cola.Unitary) and "Unitary" not in truth(D):
                bad.append((nm, V.shape))
        return bool(bad), bad
    probe("eig_structural_slice_unitary", "eig(Diagonal|Identity, k<n) declares its n x k eigenvector matrix Unitary (only Stiefel holds)", eig_slice, "eig(Diagonal([1,2,3]),2)[1].annotations")

    def svd_nonsq():
        from cola.linalg.svd.svd import svd
        U, Sg, V = svd(ops.Dense(np.arange(6.).reshape(3, 2) + np.eye(3, 2)), 2)
        bad = [X.shape for X in (U, V) if X.isa(cola.Unitary) and "Unitary" not in truth(np.asarray(X.to_dense()))]
        return bool(bad), bad
    def arn_q():
        from cola.linalg.decompositions.arnoldi import arnoldi
        Q, H, info = arnoldi(ops.Dense(np.array([[2., 1., 0.], [0., 3., 1.], [1., 0., 4.]])), np.array([1., 2., -1.]), max_iters=3)
        D = np.asarray(Q.to_dense())
        return Q.isa(cola.Stiefel) and "Stiefel" not in truth_tol(D.astype(complex)), (D.shape, sorted(a.__name__ for a in Q.annotations), "last column norm %.1e" % np.linalg.norm(D[:, -1]))
    probe("arnoldi_Q_stiefel_zero_column", "arnoldi declares its n x (m+1) basis Stiefel although the column after the Krylov space is exhausted (m = n, or a breakdown) is zero",
          arn_q, "arnoldi(Dense([[2,1,0],[0,3,1],[1,0,4]]),[1,2,-1],max_iters=3)[0].annotations")

    probe("svd_factors_unitary_nonsquare", "svd declares non-square/truncated factor matrices Unitary", svd_nonsq, "svd(Dense(3x2),2) factor annotations")
    return out


def truth_tol(D):
    """annotations true of the float matrix D up to rounding (for outputs of numerical routines)"""
    m, n = D.shape
    sc = max(1.0, float(np.abs(D).max()) if D.size else 1.0)
    out = set()
    if m == n and np.allclose(D, D.conj().T, atol=1e-7 * sc, rtol=0):
        out.add("SelfAdjoint")
        if n == 0 or np.linalg.eigvalsh((D + D.conj().T) / 2).min() > -1e-7 * sc:
            out.add("PSD")
    if np.allclose(D.conj().T @ D, np.eye(n), atol=1e-6, rtol=0):
        out.add("Stiefel")
        if m == n:
            out.add("Unitary")
    return out


def _ops_in(x, path=""):
    """all LinearOperators inside a routine result (tuples / lists), with a path label"""
    from cola.ops import LinearOperator
    if isinstance(x, LinearOperator):
        yield path or "out", x
    elif isinstance(x, (tuple, list)):
        for i, y in enumerate(x):
            yield from _ops_in(y, f"{path}[{i}]")


def routine_stream(ctx, present):
    """annotations attached by library routines to their own outputs: every operator returned by lanczos / arnoldi /
    eig / svd / matrix functions / inv / pinv / cholesky / plu on random small inputs (real and complex, full and
    truncated k, early-terminating start vectors, structured kinds) must only report annotations that are true of its
    dense matrix.  Regions spoiled by a recorded flag are skipped while that flag is present."""
    import cola
    from cola import ops
    from cola import linalg as la
    from cola.linalg.decompositions.lanczos import lanczos
    from cola.linalg.decompositions.arnoldi import arnoldi
    from cola.linalg.svd.svd import DenseSVD, svd as _svd
    rnd = np.random.RandomState(1000 + ctx.seed)
    mism, hist, n_calls, n_ops = [], {}, 0, 0

    def herm(n, cplx, psd, repeated=False):
        Qm, _ = np.linalg.qr(rnd.randn(n, n) + (1j * rnd.randn(n, n) if cplx else 0))
        lam = rnd.choice([1., 2., 3.], size=n) if repeated else np.sort(rnd.uniform(0.5, 4, size=n) + np.arange(n))
        if not psd:
            lam = lam * rnd.choice([-1, 1], size=n)
        return (Qm * lam) @ Qm.conj().T, Qm, lam

    calls = []
    reps = ctx.budget(6, 40)
    for rep in range(reps):
        cplx = bool(rep % 2)
        n = int(rnd.randint(3, 7))
        H, Qm, lam = herm(n, cplx, psd=True, repeated=(rep % 3 == 2))
        Hi, _, _ = herm(n, cplx, psd=False)
        G = rnd.randn(n, n) + (1j * rnd.randn(n, n) if cplx else 0)
        Tall = rnd.randn(n + 2, n) + (1j * rnd.randn(n + 2, n) if cplx else 0)
        v = rnd.randn(n) + (1j * rnd.randn(n) if cplx else 0)
        vlow = Qm[:, :2] @ np.array([1., 2.])            # lies in a 2-dimensional invariant subspace: early termination
        k = int(rnd.randint(1, n + 1))
        P_, S_ = cola.PSD(ops.Dense(H)), cola.SelfAdjoint(ops.Dense(Hi))
        for mi in sorted({2, n - 1, n, n + 3}):
            for nm, sv in (("v", v), ("vlow", vlow)):
                calls.append((f"lanczos(PSD n={n} cplx={cplx} max_iters={mi} start={nm})", "lanczos", lambda P_=P_, sv=sv, mi=mi: lanczos(P_, sv, max_iters=mi)[:2]))
                calls.append((f"arnoldi(Dense n={n} cplx={cplx} max_iters={mi} start={nm})", "arnoldi", lambda G=G, sv=sv, mi=mi: arnoldi(ops.Dense(G), sv, max_iters=mi)[:2]))
                calls.append((f"arnoldi(Dense hermitian n={n} cplx={cplx} max_iters={mi} start={nm})", "arnoldi", lambda H=H, sv=sv, mi=mi: arnoldi(ops.Dense(H), sv, max_iters=mi)[:2]))
        for alg_nm, alg in (("Eigh", la.Eigh()), ("Lanczos", la.Lanczos(max_iters=n)), ("Auto", la.Auto())):
            for wh in ("LM", "SM"):
                calls.append((f"eig(SelfAdjoint n={n} cplx={cplx}, k={k}, {wh}, {alg_nm})", "eig_sa", lambda S_=S_, k=k, wh=wh, alg=alg: la.eig(S_, k, wh, alg)[1]))
        for alg_nm, alg in (("Eig", la.Eig()), ("Arnoldi", la.Arnoldi(max_iters=n)), ("Auto", la.Auto())):
            calls.append((f"eig(Dense n={n} cplx={cplx}, k={k}, LM, {alg_nm})", "eig_gen", lambda G=G, k=k, alg=alg: la.eig(ops.Dense(G), k, "LM", alg)[1]))
        Tu = np.triu(G) + np.diag(np.arange(1, n + 1) * 3.0)
        calls.append((f"eig(Triangular upper n={n} cplx={cplx}, k={k})", "eig_tri", lambda Tu=Tu, k=k: la.eig(ops.Triangular(Tu, lower=False), k, "LM")[1]))
        calls.append((f"eig(Triangular lower n={n} cplx={cplx}, k={k})", "eig_tri", lambda Tu=Tu, k=k: la.eig(ops.Triangular(Tu.T.copy(), lower=True), k, "LM")[1]))
        dg = rnd.randn(n) + (1j * rnd.randn(n) if cplx else 0)
        calls.append((f"eig(Diagonal n={n} cplx={cplx}, k={k})", "eig_struct" if k < n else "eig_struct_full", lambda dg=dg, k=k: la.eig(ops.Diagonal(dg), k, "LM")[1]))
        calls.append((f"eig(Identity n={n}, k={k})", "eig_struct" if k < n else "eig_struct_full", lambda n=n, k=k, cplx=cplx: la.eig(ops.Identity((n, n), np.complex128 if cplx else np.float64), k, "LM")[1]))
        for shape_nm, M in (("square", G), ("tall", Tall), ("wide", Tall.conj().T.copy())):
            kk = int(rnd.randint(1, min(M.shape) + 1))
            for alg_nm, alg in (("DenseSVD", DenseSVD()), ("Auto", la.Auto()), ("Lanczos", la.Lanczos(max_iters=min(M.shape)))):
                calls.append((f"svd(Dense {shape_nm} {M.shape} cplx={cplx}, k={kk}, {alg_nm})", "svd", lambda M=M, kk=kk, alg=alg: _svd(ops.Dense(M), kk, "LM", alg)))
        calls.append((f"svd(Diagonal n={n} cplx={cplx}, k={k})", "svd", lambda dg=dg, k=k: _svd(ops.Diagonal(dg), k)))
        calls.append((f"svd(Identity n={n}, k={k})", "svd", lambda n=n, k=k: _svd(ops.Identity((n, n), np.float64), k)))
        dg0 = dg.copy()
        dg0[rnd.randint(0, n)] = 0                       # exact zeros (masks, projections): phases / normalisations of 0
        for wh in ("LM", "SM"):
            calls.append((f"svd(Diagonal with a zero entry n={n} cplx={cplx}, k={k}, {wh})", "svd", lambda dg0=dg0, k=k, wh=wh: _svd(ops.Diagonal(dg0), k, wh)))
            calls.append((f"eig(Diagonal with a zero entry n={n} cplx={cplx}, k={k}, {wh})", "eig_struct" if k < n else "eig_struct_full",
                          lambda dg0=dg0, k=k, wh=wh: la.eig(ops.Diagonal(dg0), k, wh)[1]))
        calls.append((f"svd(Dense rank-deficient n={n} cplx={cplx})", "svd", lambda G=G, n=n: _svd(ops.Dense(G[:, :1] @ G[:1, :]), n)))
        for fn_nm, fn in (("exp", la.exp), ("sqrt", la.sqrt), ("log", la.log), ("isqrt", la.isqrt)):
            for alg_nm, alg in (("Auto", la.Auto()), ("Eigh", la.Eigh()), ("Lanczos", la.Lanczos(max_iters=n)), ("Eig", la.Eig()), ("Arnoldi", la.Arnoldi(max_iters=n))):
                calls.append((f"{fn_nm}(PSD n={n} cplx={cplx}, {alg_nm})", "unary", lambda fn=fn, P_=P_, alg=alg: fn(P_, alg)))
            calls.append((f"{fn_nm}(Diagonal PSD)", "unary", lambda fn=fn, lam=lam: fn(cola.PSD(ops.Diagonal(np.abs(lam) + 0.5)), la.Auto())))
        calls.append((f"pow(PSD n={n} cplx={cplx}, 3)", "unary", lambda P_=P_: la.pow(P_, 3)))
        calls.append((f"exp(SelfAdjoint indefinite n={n} cplx={cplx}, Eigh)", "unary", lambda S_=S_: la.exp(S_, la.Eigh())))
        calls.append((f"exp(SelfAdjoint indefinite n={n} cplx={cplx}, Lanczos)", "unary", lambda S_=S_, n=n: la.exp(S_, la.Lanczos(max_iters=n))))
        for alg_nm, alg in (("Auto", la.Auto()), ("Cholesky", la.Cholesky()), ("LU", la.LU()), ("CG", la.CG(tol=1e-10)), ("GMRES", la.GMRES(max_iters=n))):
            calls.append((f"inv(PSD n={n} cplx={cplx}, {alg_nm})", "inv", lambda P_=P_, alg=alg: la.inv(P_, alg)))
        calls.append((f"inv(Unitary n={n} cplx={cplx})", "inv", lambda Qm=Qm: la.inv(cola.Unitary(ops.Dense(Qm)))))
        calls.append((f"inv(Kronecker(PSD,PSD) n={n})", "inv", lambda P_=P_: la.inv(ops.Kronecker(P_, P_))))
        calls.append((f"pinv(Dense tall cplx={cplx})", "pinv", lambda Tall=Tall: la.pinv(ops.Dense(Tall))))
        calls.append((f"cholesky(PSD n={n} cplx={cplx})", "chol", lambda P_=P_: la.cholesky(P_)))
        calls.append((f"plu(Dense n={n} cplx={cplx})", "plu", lambda G=G: la.plu(ops.Dense(G))))
        calls.append((f"cholesky(Kronecker(PSD,PSD))", "chol", lambda P_=P_: la.cholesky(ops.Kronecker(P_, P_))))
    skip_region = {"svd": "svd_factors_unitary_nonsquare", "eig_tri": "eig_triangular_unitary", "eig_struct": "eig_structural_slice_unitary"}
    for label, region, fn in calls:
        if skip_region.get(region) in present:
            hist["skipped:" + region] = hist.get("skipped:" + region, 0) + 1
            continue
        try:
            with warnings.catch_warnings():
                warnings.simplefilter("ignore")
                res = fn()
        except Exception:
            hist["raised:" + region] = hist.get("raised:" + region, 0) + 1
            continue       # errors of the routines themselves belong to other properties
        n_calls += 1
        hist[region] = hist.get(region, 0) + 1
        for path, A in _ops_in(res):
            if not A.annotations:
                continue
            try:
                with warnings.catch_warnings():
                    warnings.simplefilter("ignore")
                    D = np.asarray(A.to_dense())
            except Exception:
                continue
            if D.ndim != 2 or not np.all(np.isfinite(D)):
                continue
            n_ops += 1
            tr = truth_tol(D.astype(complex))
            bad = sorted(a.__name__ for a in A.annotations if a.__name__ not in tr)
            if bad == ["Stiefel"] and region == "arnoldi" and "arnoldi_Q_stiefel_zero_column" in present:
                nz = np.abs(D).max(axis=0) > 0          # recorded finding: exactly-zero columns after the Krylov space is exhausted
                if not nz.all() and "Stiefel" in truth_tol(D[:, nz].astype(complex)):
                    hist["attributed:arnoldi_zero_column"] = hist.get("attributed:arnoldi_zero_column", 0) + 1
                    bad = []
            if bad:
                mism.append(dict(oracle_fail=True, case=label + " -> " + path, got=sorted(a.__name__ for a in A.annotations), shape=list(D.shape),
                                 failed_clauses=["routine output reports " + ",".join(bad) + " which is not true of its dense matrix"]))
    return n_calls, n_ops, mism, hist


def run(ctx):
    fnd = findings()
    present = {f["flag"] for f in fnd if f["present"]}
    c01_present = {f["flag"] for f in c01.findings() if f["present"]}
    rnd = ctx.rng
    gen = T.Gen(rnd, kinds=("Dense", "Diag", "Tri", "Tridiag", "Sum", "Prod", "Kron", "Transp", "Adj"))
    ag = AGen(rnd, gen)
    ag.index_arrays = "sliced_index_array_cpu" not in c01_present
    n = ctx.budget(600, 6000)
    cases = []
    tries = 0
    # systematic block: every combination W1(W2(K)) @ W2(K) / W2(K) @ W1(W2(K)) of lazy wrappers around a genuinely
    # complex (and a real) operand K of size >= 2 - the recognition of the A^H A pattern is keyed on the wrapper classes
    for w2 in (None, "transp", "adj"):
        for adj in (False, True):
            for left in (False, True):
                for cplx_ in (True, True, False):
                    for _ in range(20):
                        a, ta = ag.node(rnd.randint(0, 1), cplx_)
                        if min(T.shape(ta)) >= 2 and (not cplx_ or np.abs(T.dense(ta).imag).max() > 0):
                            break
                    else:
                        continue
                    if w2:
                        a, ta = dict(x=w2, a=a, decl=[]), dict(k="Transp" if w2 == "transp" else "Adj", a=ta)
                    isreal = not any(x in T.CPLX for x in O.leaf_dts(ta))
                    an = dict(x="gram", adj=adj, left=left, isreal=isreal, a=a, decl=[])
                    w = dict(k="Adj" if adj else "Transp", a=ta)
                    t = dict(k="Prod", ms=[w, ta] if left else [ta, w])
                    if T.shape(t)[0] * T.shape(t)[1] <= 300 and np.abs(T.dense(t)).max() <= 2 ** 20:
                        cases.append(dict(an=an, tree=t))
    while len(cases) < n and tries < 30 * n:
        tries += 1
        an, t = ag.node(rnd.randint(0, ctx.budget(3, 4)), rnd.random() < 0.5)
        m, k = T.shape(t)
        if m * k > 300 or m == 0 or k == 0:
            continue
        D = T.dense(t)
        if np.abs(D).max() > (2 ** 45 if set(O.leaf_dts(t)) <= {"float64", "complex128", "int64"} else 2 ** 20):
            continue
        cases.append(dict(an=an, tree=t))
    obs = []
    for c in cases:
        try:
            del ALTERED[:]
            A = build(c["an"])
            c["altered"] = list(ALTERED)
            c["got"] = sorted(a.__name__ for a in A.annotations)
            Dd = np.asarray(A.to_dense())
            c["dense_ok"] = bool(np.array_equal(Dd.astype(complex), T.dense(c["tree"])))
            c["ok"] = True
        except Exception as e:
            c["ok"] = False
            c["err"] = type(e).__name__ + ": " + str(e)[:150]
    fl = ("{| keep_scalar := %s; keep_stiefel := %s; ata_transpose := %s |}" %
          tuple("true" if f in present else "false" for f in ("scalar_keeps_annotations", "transpose_keeps_stiefel", "ATA_psd_for_complex_transpose")))
    okc = [c for c in cases if c["ok"]]
    terms = ["((" + coq(c["an"]) + "), [" + ";".join("true" if nme in c["got"] else "false" for nme in NAMES) + "])" for c in okc]
    mism = []
    failing = []
    shard = 300
    jobs = [(f"c05_{s // shard}", HEADER + "Definition cases : list (aop (R:=zi) * list bool) := [\n" + ";\n".join(terms[s:s + shard]) +
             f"].\nEval vm_compute in (List.length cases, failing2 {fl} 0 cases).\n") for s in range(0, len(terms), shard)]
    for si, (rc, out) in enumerate(core.coqc_many(jobs, 600)):
        mm = re.search(r"=\s*\((\d+),\s*\[(.*?)\]\)", out, flags=re.S)
        if rc != 0 or not mm:
            mism.append(dict(oracle_fail=False, harness_error=f"shard {si}: rc={rc}\n{out[-1500:]}"))
            continue
        if mm.group(2).strip():
            failing += [si * shard + int(x) for x in mm.group(2).replace("\n", " ").split(";") if x.strip()]
    fs = {id(okc[i]) for i in failing}
    # truth of every reported annotation (independent oracle); untrue ones must be explained by a present flag,
    # i.e. absent from the repaired model's set
    untrue = []
    for c in okc:
        tr = truth(T.dense(c["tree"]))
        tr_isa = set(tr)
        bad = [a for a in c["got"] if a not in tr_isa]
        if bad:
            untrue.append((c, bad))
    repaired_sets = {}
    if untrue:
        body = HEADER + "Eval vm_compute in map (fun x => norm (infer repaired x)) [\n" + ";\n".join("(" + coq(c["an"]) + " : aop (R:=zi))" for c, _ in untrue) + "].\n"
        rc, out = core.coqc_text("c05_rep", body, 600)
        rows = re.findall(r"\[((?:true|false)(?:;\s*(?:true|false))*)\]", out)
        if rc != 0 or len(rows) != len(untrue):
            mism.append(dict(oracle_fail=False, harness_error=f"repaired-model evaluation failed rc={rc}: {out[-800:]}"))
        else:
            for (c, bad), row in zip(untrue, rows):
                vals = [v.strip() == "true" for v in row.split(";")]
                repaired_sets[id(c)] = {nme for nme, v in zip(NAMES, vals) if v}
    attributed = 0
    for c in cases:
        if not c["ok"]:
            mism.append(dict(oracle_fail=True, case=c["an"], failed_clauses=["raised " + c["err"]]))
            continue
        bad = []
        if not c["dense_ok"]:
            if "scalar_keeps_annotations" in present and scal_in_prod(c["tree"]):
                attributed += 1      # recorded finding: c*A keeps A's annotations, the untrue SelfAdjoint then misleads the left-product shortcut
            else:
                bad.append("declaring annotations changed the represented matrix")
        if c.get("altered"):
            bad.append("declaring altered the operator it was applied to: " + c["altered"][0])
        for cc, b in untrue:
            if cc is c:
                rep = repaired_sets.get(id(c))
                extra = [a for a in b if rep is None or a in rep or id(c) in fs]
                if extra:
                    bad.append("reported but untrue (and not explained by a recorded flag): " + ",".join(extra))
                else:
                    attributed += 1
        if bad or id(c) in fs:
            mism.append(dict(oracle_fail=bool(bad), case=c["an"], got=c["got"], failed_clauses=bad, model_disagrees=(id(c) in fs)))
    r_calls, r_ops, r_mism, r_hist = routine_stream(ctx, present)
    mism += r_mism
    kinds = {}
    for c in cases:
        for w in re.findall(r"'x': '(\w+)'", str(c["an"])):
            kinds[w] = kinds.get(w, 0) + 1
    return dict(
        evaluations=len(cases), distinct_nontrivial=len({core.digest(c["an"]) for c in cases if c["an"]["x"] != "leaf"}),
        rule="random annotated operator trees (depth<=%d): leaves PSD/self-adjoint/unitary/Stiefel by construction, every node declares a random subset of the annotations that are TRUE of its dense matrix; "
             "A^H A / A^T A patterns with the same object, scalar multiples, equal/unequal slices; non-trivial = composite; distinct by hash" % ctx.budget(3, 4),
        samples=[cases[0]["an"], cases[1]["an"]], mismatches=mism, findings=fnd,
        extra=dict(node_histogram=kinds, reported_annotation_counts={a: sum(1 for c in okc if a in c["got"]) for a in NAMES},
                   untrue_reports_attributed_to_recorded_flags=attributed, flags_vector=fl,
                   routine_outputs=dict(calls=r_calls, annotated_outputs_checked=r_ops, histogram=r_hist)))
