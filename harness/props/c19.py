"""C19 -- structured operators are never densified.

(a) selection: the chain of selected rules the Coq model predicts (coq/C19_Select.v `chain`, on the table regenerated
    from the live registry) against the chain of dispatches traced on the real code for structured operators x
    functions x ways of passing the algorithm;
(b) cost: tracemalloc peak of `A @ X` and of every linear-algebra entry point with a structural rule on LARGE
    structured operators (n = 1e4 .. 1e5, factor storage <= n^2/1000) against the Coq cost model (coq/C19_Cost.v
    `allocs`, evaluated inside Coq on the operator's shape tree): within 3x, and far below n^2;
(c) flags probed on the real code."""
import os, sys, time, tracemalloc, traceback
import numpy as np
import core
import shim  # noqa: F401
import cola
import translate_c04_rules as TR
import c04_lattice as LT
import c04_trace as TC
import c04_build as CB

TRUSTED_BASE = [
    "Coq 8.16.1 kernel + vm_compute",
    "coq/C04_Resolver.v + the rule table regenerated from the live registry (see C04)",
    "coq/C19_Select.v: hand-written list of forwarding generic rules (exp/log -> apply_unary, sqrt/isqrt -> pow -> "
    "apply_unary, trace -> diag) -- validated against the dispatch chains traced on the real code",
    "coq/C19_Cost.v as a reading of the _matmat methods of cola/ops/operators.py at the granularity of whole-array "
    "allocations -- validated by tracemalloc on large operators (within 3x)",
    "tracemalloc sees numpy's data buffers; allocator slack, BLAS workspaces and python objects are not modelled",
    "harness/c19_cost.py (operator -> shape tree), harness/c04_trace.py (tracing of plum's Function.__call__)",
]
ASSUMPTIONS = [
    "a rule typed on a proper operator class (or guarded by an annotation condition) works factor by factor; the "
    "densifying paths are the generic base cases (checked by the memory measurements on large operators)",
    "numpy views (reshape of contiguous arrays, moveaxis, slices, transposes) allocate nothing",
]

C19_FUNCTIONS = ["inv", "slogdet", "diag", "trace", "exp", "log", "sqrt", "isqrt", "pow", "cholesky", "plu"]
ALGEBRA = {"get_annotations", "dot", "add", "mul", "transpose", "adjoint", "kron", "kronsum"}
DENSE_TEMPS = 8   # leaf-sized temporaries of one dense factorisation (to_dense, factors, complex eigenvectors = 2 units)


# ------------------------------------------------------------------------------------------------------------
# (a) selection chains
# ------------------------------------------------------------------------------------------------------------
def observed_chain(T, fn, log):
    """[(function, code)] along the dispatches that receive the SAME operator object"""
    U = T["U"]
    top = [r for r in log if r.depth == 0 and r.fn == fn]
    if not top:
        return []
    rec = top[0]
    out = []
    pos = [i for i, c in enumerate(U.LATTICE[fn][0]) if isinstance(c, str) and c.startswith("OPS")][0]
    A = rec.args[pos] if len(rec.args) > pos else None
    while rec is not None:
        d = T["funcs"][rec.fn]
        if rec.sig is None:
            out.append((rec.fn, 1 if rec.err == "AmbiguousLookupError" else 0))
            break
        code = None
        for i, r in enumerate(d["rules"]):
            if r["sig"] is rec.sig:
                code = 2 + i
        out.append((rec.fn, code))
        nxt = None
        for r2 in log:
            if r2.parent is rec and r2.fn in T["funcs"] and r2.fn not in ALGEBRA:
                p2 = [i for i, c in enumerate(U.LATTICE[r2.fn][0]) if isinstance(c, str) and c.startswith("OPS")][0]
                if len(r2.args) > p2 and r2.args[p2] is A:
                    nxt = r2
                    break
        rec = nxt
    return out


def selection_cases(ctx, T):
    reps, U = T["reps"], T["U"]
    full = ctx.tier == "thorough"
    anns = ("", "PSD", "SA", "U", "St") if full else ("", "PSD", "U")
    structured = [n for n in T["op_all"] if reps[n].structured and reps[n].ann in anns]
    cases = []
    for fn in C19_FUNCTIONS:
        reqc, optc = TR.choices(T, fn, True)
        reqc = [[r for r in c if (reps[r].sort != "op" or r in structured) and r not in ("pyint", "npfloat")] for c in reqc]
        if fn in ("slogdet", "diag"):
            # the two optional parameters: keep the forms where the trace algorithm / k are default or Exact
            optc = [optc[0], [x for x in optc[1] if x in ("Auto", "Exact")]] if fn == "slogdet" else [["pyint0"], [x for x in optc[1] if x != "Hutch" or full]]
        for req, opt in LT.calls(reqc, optc):
            cases.append((fn, req, opt))
    ctx.rng.shuffle(cases)
    return cases[: ctx.budget(4000, 100000)]


def coq_chain_file(T, cases):
    rid = T["rid"]

    def af(k, n):
        return "Omit" if k == "O" else f"{'Pos' if k == 'P' else 'Kw'} {rid[n]}%positive"
    ents = []
    for fn, req, opt in cases:
        ents.append(f"(\"{fn}\", [{';'.join(str(rid[n]) + '%positive' for n in req)}], [{';'.join(af(k, n) for k, n in opt)}])")
    return f"""From Coq Require Import List ZArith NArith PArith Bool String.
From Core Require Import C04_Resolver C04_RuleTable C04_Proofs C19_Select.
Import ListNotations.
Local Open Scope string_scope.
Definition cases : list (string * list positive * list aform) := [
{(';' + chr(10)).join(ents)}
].
Definition fcode (f : string) : N :=
  (fix go (l : list string) (i : N) := match l with [] => 99%N | g :: l' => if String.eqb f g then i else go l' (N.succ i) end)
  (map fname specs_full) 0%N.
Eval vm_compute in (map (fun c => map (fun p => (fcode (fst p), snd p)) (chain 4 (fst (fst c)) (snd (fst c)) (snd c))) cases).
"""


def parse_chains(out):
    import re
    flat = " ".join(out.split())
    m = re.search(r"= (\[.*\]) : list \(list \(N \* N\)\)", flat)
    if not m:
        return None
    s = m.group(1).replace("%N", "").replace(";", ",")
    s = re.sub(r"\bnil\b", "[]", s)
    return eval(s, {"__builtins__": {}})  # nested lists of integer pairs printed by Coq


def run_selection(ctx, T):
    reps, U = T["reps"], T["U"]
    cases = selection_cases(ctx, T)
    fnames = list(T["funcs"])
    mism, ncmp = [], 0
    CH = 250
    jobs = [(f"c19_sel_{i // CH}", coq_chain_file(T, cases[i:i + CH])) for i in range(0, len(cases), CH)]
    res = CB.coqc_many(jobs, timeout=600)
    coq_chains = []
    for (name, _), (rc, out) in zip(jobs, res):
        p = parse_chains(out) if rc == 0 else None
        if p is None:
            mism.append(dict(oracle_fail=False, what="generated selection shard did not compile", shard=name, log=out[-1500:]))
            return mism, 0, {}
        coq_chains += p
    t0 = time.time()
    budget = ctx.budget(25.0, 500.0)
    outcomes = {"structural": 0, "generic": 0, "nonunique": 0}
    skipped = 0
    for (fn, req, opt), cchain in zip(cases, coq_chains):
        if time.time() - t0 > budget:
            skipped += 1
            continue
        names = [n for n, _ in U.LATTICE[fn][1]]
        f = U.public_callable(fn)
        args = [reps[x].obj for x in req] + [reps[x].obj for k, x in opt if k == "P"]
        kwargs = {n: reps[x].obj for (k, x), n in zip(opt, names) if k == "K"}
        log, e, msg = TC.run_traced(f, args, kwargs, 0.1)
        obs = [(fnames.index(g), c) for g, c in observed_chain(T, fn, log)]
        model = [tuple(p) for p in cchain]
        if (model != obs[:len(model)] or not model) and e == "Timeout":
            # the chain is complete within the first milliseconds; under load give the call more time before alarming
            log, e, msg = TC.run_traced(f, args, kwargs, 8.0)
            obs = [(fnames.index(g), c) for g, c in observed_chain(T, fn, log)]
        ncmp += 1
        if model != obs[:len(model)] or not model:
            mism.append(dict(oracle_fail=False, what="chain of selected rules: Coq model vs dispatches traced on the real code",
                             case=LT.form_str(fn, req, opt, names), model=[(fnames[a], b) for a, b in model],
                             observed=[(fnames[a], b) for a, b in obs], exception=e))
            if len(mism) > 10:
                break
    return mism, ncmp, dict(selection_cases=len(cases), selection_compared=ncmp, selection_skipped_for_time=skipped)


# ------------------------------------------------------------------------------------------------------------
# (b) cost
# ------------------------------------------------------------------------------------------------------------
_MEASURED = [0]


def measure(fn, seconds=25.0):
    import gc
    _MEASURED[0] += 1
    if _MEASURED[0] % 16 == 1:     # the peak is taken relative to the level at the start of the call; a full collection
        gc.collect()               # every few calls only keeps the process small (it costs 50 ms with cola's many objects)
    tracemalloc.start()
    base = tracemalloc.get_traced_memory()[0]
    tracemalloc.reset_peak()
    t = time.time()
    err = None
    out = None
    try:
        with TC.time_limit(seconds):
            out = fn()
    except TC.Timeout:
        err = f"Timeout: not finished after {seconds} s"
    except Exception as e:  # noqa
        err = f"{type(e).__name__}: {str(e)[:200]}"
    dt = time.time() - t
    _, peak = tracemalloc.get_traced_memory()
    tracemalloc.stop()
    return out, max(peak - base, 0), dt, err


def spd(rng, n):
    a = rng.standard_normal((n, n))
    return a @ a.T / n + np.eye(n)


def big_operators(ctx):
    """name -> operator; n in [1e4, 1e5], factor storage <= n^2/1000"""
    from cola.ops import Dense, Kronecker, KronSum, BlockDiag, Diagonal, Identity, ScalarMul, Permutation, Tridiagonal, Sum, Product
    rng = np.random.default_rng(ctx.seed + 19)
    s = ctx.rng.choice([0, 1, 2])          # vary the sizes with the seed
    f64 = np.float64
    PSD = cola.PSD
    d = lambda n: PSD(Dense(spd(rng, n)))  # noqa
    ops = {}
    ops["kron2"] = Kronecker(d(100 + 10 * s), d(100))
    ops["kron3"] = Kronecker(d(20 + s), d(20), d(25))
    ops["kron4"] = Kronecker(d(10), d(10 + s), d(10), d(10))
    ops["kronsum2"] = KronSum(d(100), d(100 + 5 * s))
    ops["kronsum3"] = KronSum(d(20), d(25), d(20 + s))
    ops["block"] = BlockDiag(d(50), d(20 + s), multiplicities=[100, 250])
    ops["block_kron"] = BlockDiag(Kronecker(d(10), d(20)), d(40), multiplicities=[30 + s, 100])
    ops["kron_block"] = Kronecker(BlockDiag(d(10), d(5), multiplicities=[5, 10]), d(100))
    n = ops["kron2"].shape[0]
    ops["sum_kron_diag"] = Sum(ops["kron2"], Diagonal(np.arange(1., n + 1)))
    ops["prod_kron_diag_scalar"] = Product(ops["kron2"], Diagonal(np.arange(1., n + 1) / n + 1), ScalarMul(2., (n, n), f64))
    ops["scalar_times_kron"] = 3. * ops["kron3"]
    ops["diag"] = Diagonal(np.arange(1., 100001.))
    ops["identity"] = Identity((100000, 100000), f64)
    ops["scalar"] = ScalarMul(2.5, (100000, 100000), f64)
    ops["perm"] = Permutation(rng.permutation(100000), f64)
    ops["tridiag"] = Tridiagonal(np.ones(99999), 4 * np.ones(100000), np.ones(99999))
    ops.update(small_factor_operators(ctx, rng))
    return ops


def small_factor_operators(ctx, rng):
    """Kronecker / KronSum with 3-4 SMALL factors of unequal sizes (Dense and Triangular): n = product is large although
    every factor is tiny (n^2 >= 1000 x factor storage) -- the '2-4 factors' clause of the quantifier; code paths that
    special-case tiny factors are only reached here."""
    from cola.ops import Dense, Triangular, Kronecker, KronSum
    PSD = cola.PSD

    def fac(n, tri):
        M = spd(rng, n)
        return Triangular(np.tril(M) + n * np.eye(n), lower=True) if tri else PSD(Dense(M))
    fixed = [(8, 8, 8), (8, 7, 6, 5), (4, 16, 4, 8), (12, 10, 9), (5, 6, 7, 8)]
    drawn = []
    tries = 0
    while len(drawn) < 5 and tries < 200:
        tries += 1
        sizes = tuple(ctx.rng.randint(3, 16) for _ in range(ctx.rng.choice([3, 4])))
        n = int(np.prod(sizes))
        if 400 <= n <= 20000 and n * n >= 1000 * sum(x * x for x in sizes) and sizes not in drawn and sizes not in fixed:
            drawn.append(sizes)
    ops = {}
    for i, sizes in enumerate(fixed + drawn):
        tag = "x".join(map(str, sizes))
        tri = [(i + j) % 3 == 2 for j in range(len(sizes))]           # every third factor triangular
        ops[f"kron_small_{tag}"] = Kronecker(*[fac(n, t) for n, t in zip(sizes, tri)])
        if i % 2 == 0:
            ops[f"kron_smalldense_{tag}"] = Kronecker(*[fac(n, False) for n in sizes])
        if i % 3 != 1:
            ops[f"kronsum_small_{tag}"] = KronSum(*[fac(n, False) for n in sizes])
    return ops


# The property's own bound, used as the ORACLE (independent of the Coq model): peak additional memory of one call is at
# most  K1 * operand bytes  +  K2 * (sum of the dense sizes of the individual factors, in bytes)  +  SLACK.
#   operand = the array the call consumes/produces (X for A @ X, the right-hand side / result vector for the
#             linear-algebra entry points, a length-n vector for diag / trace / logdet);
#   K1 = 12 for products (the worst matrix-free product of the unchanged tree, a Kronecker sum with 4 columns, keeps
#        5.3 operand-sized arrays alive; nesting adds at most one reshape copy per level) and for the entry points
#        (result, right-hand side, per-factor intermediates of the factor-wise product);
#   K2 = 2 for products (no factor is copied; margin for one dtype conversion) and 48 for the entry points (a dense
#        factorisation of one leaf: to_dense through an identity + the product, P/L/U or eigenvectors -- complex, i.e.
#        two units -- and their inverses; 15 leaf-sized arrays measured for sqrt of a Kronecker product, x3 margin);
#   SLACK = 256 KiB of python objects / small temporaries.
# Anything that allocates c^2 for a multiplicity c, n^2 for the full size, or n x max_iters without being asked for an
# iterative algorithm lands far above it at the sizes generated here.
K1_MATMAT, K2_MATMAT, K1_LINALG, K2_LINALG, SLACK = 12, 2, 12, 48, 256 * 1024


def leaf_bytes(A):
    """sum of the dense sizes of the individual factors (bytes): what the operator itself stores"""
    c = type(A).__name__.split("[")[0]
    if hasattr(A, "Ms"):
        return sum(leaf_bytes(M) for M in A.Ms)
    if c in ("Dense", "Triangular"):
        return A.A.nbytes
    if c == "Diagonal":
        return A.diag.nbytes
    if c == "Permutation":
        return np.asarray(A.perm).nbytes
    if c == "Tridiagonal":
        return A.alpha.nbytes + A.beta.nbytes + A.gamma.nbytes
    if c in ("Transpose", "Adjoint"):
        return leaf_bytes(A.A)
    return np.dtype(A.dtype).itemsize


def live_units(A, k):
    """largest tensor (in elements) that the code's own contraction order keeps alive for a product with k columns, as
    a function of the factor shapes and their ORDER alone (coq/C19_Cost.v `kmax`, theorem C19_kron_rect_bound): for a
    Kronecker product, the largest prefix size prod(rows of the factors already applied) * prod(columns of the
    remaining ones) * k -- equal to n*k for square factors; recursively through the other structured kinds"""
    c = type(A).__name__.split("[")[0]
    rows, cols = A.shape
    base = max(rows, cols) * k
    if c == "Kronecker":
        best, pre = base, 1
        post = [1]
        for M in reversed(A.Ms):
            post.append(post[-1] * M.shape[1])
        post = post[::-1]            # post[i] = product of the columns of factors i..end
        for i, M in enumerate(A.Ms):
            best = max(best, pre * post[i] * k, live_units(M, pre * post[i + 1] * k))
            pre *= M.shape[0]
        return max(best, pre * k)
    if c == "BlockDiag":
        return max([base] + [live_units(M, k * int(m)) for M, m in zip(A.Ms, A.multiplicities)])
    if c in ("Product", "Sum", "KronSum"):
        if c == "KronSum":
            return base
        return max([base] + [live_units(M, k) for M in A.Ms])
    return base


def property_bound(operand_bytes, A, linalg):
    k1, k2 = (K1_LINALG, K2_LINALG) if linalg else (K1_MATMAT, K2_MATMAT)
    return k1 * operand_bytes + k2 * leaf_bytes(A) + SLACK


def wide_operators(ctx, rng):
    """regimes in which the property's bound separates from c^2 (c a multiplicity), from n^2 and from per-level
    copies: multiplicities in the hundreds / thousands, many tiny factors, many terms, long chains, identity / diagonal
    factors inside a Kronecker product, rectangular blocks, deep nesting, float32 and complex payloads."""
    from cola.ops import Dense, Kronecker, KronSum, BlockDiag, Diagonal, Identity, ScalarMul, Permutation, Tridiagonal, Sum, Product
    PSD = cola.PSD
    f64 = np.float64
    d = lambda n: PSD(Dense(spd(rng, n)))  # noqa
    s = ctx.rng.randint(0, 3)
    ops = {}
    ops["block_mult_1200x2_400x3"] = BlockDiag(d(2), d(3), multiplicities=[1200, 400])
    ops["block_mult_5000x4"] = BlockDiag(d(4), multiplicities=[5000 + 100 * s])
    ops["block_mult_mixed"] = BlockDiag(d(6), d(2), d(9 + s), multiplicities=[700, 1, 300])
    sizes = [ctx.rng.randint(2, 8) for _ in range(ctx.budget(20, 60))]
    ops["block_60blocks"] = BlockDiag(*[d(x) for x in sizes], multiplicities=[ctx.rng.randint(1, 40) for _ in sizes])
    ops["block_rect"] = BlockDiag(Dense(rng.standard_normal((30, 20))), Dense(rng.standard_normal((10, 40))), multiplicities=[100, 50 + s])
    ops["kron_12x2"] = Kronecker(*[d(2) for _ in range(12)])
    ops["kron_8x3"] = Kronecker(*[d(3) for _ in range(8)])
    ops["kronsum_5terms"] = KronSum(d(5), d(4), d(6), d(3 + s), d(5))
    ops["kron_ident_dense"] = Kronecker(Identity((100 + s, 100 + s), f64), d(100))
    ops["kron_dense_ident"] = Kronecker(d(60), Identity((150, 150), f64))
    ops["kron_diag_dense"] = Kronecker(PSD(Diagonal(1. + rng.random(200))), d(50))
    K = Kronecker(d(100), d(100))
    n = K.shape[0]
    terms = [K, PSD(Diagonal(1. + rng.random(n))), ScalarMul(2., (n, n), f64), Kronecker(d(10), d(10), d(100))]
    ops["sum_20terms"] = Sum(*[terms[i % 4] for i in range(20)])
    chain = [K, Diagonal(1. + rng.random(n)), Permutation(rng.permutation(n), f64), Kronecker(d(10), d(10), d(100)), ScalarMul(1.5, (n, n), f64)]
    ops["product_15factors"] = Product(*[chain[i % 5] for i in range(15)])
    ops["nested_deep"] = Kronecker(BlockDiag(Kronecker(d(3), d(4)), d(5), multiplicities=[3, 4]), d(20), BlockDiag(d(2), multiplicities=[6]))
    a32 = lambda n: Dense(spd(rng, n).astype(np.float32))  # noqa
    ops["kron_float32"] = Kronecker(a32(90), a32(100))
    def ac(n):   # Hermitian positive definite
        C = 0.05 * np.triu(rng.standard_normal((n, n)), 1)
        return Dense(spd(rng, n) + 1j * (C - C.T))
    ops["kron_complex"] = Kronecker(ac(60), ac(100))
    ops["block_complex_mult"] = BlockDiag(ac(3), multiplicities=[2000])
    # rectangular Kronecker factors: wide before tall, tall before wide, mixed (the order-aware bound of C19_kron_rect_bound)
    R = lambda m, n: Dense(rng.standard_normal((m, n)))  # noqa
    N_ = 1500 + 100 * s
    ops["kron_rect_wide4_tall4"] = Kronecker(R(4, N_), R(N_, 4))
    ops["kron_rect_row_col"] = Kronecker(R(1, 2 * N_), R(2 * N_, 1))
    ops["kron_rect_tall4_wide4"] = Kronecker(R(N_, 4), R(4, N_))
    ops["kron_rect_wide_sq_tall"] = Kronecker(R(3, 400), d(20), R(400 + s, 3))
    ops["kron_rect_wide_tall_wide"] = Kronecker(R(2, 300), R(300, 5), R(4, 250))
    ops["kron_rect_tall_wide_tall"] = Kronecker(R(60, 2), R(3, 500), R(500, 2))
    ops["kron_rect_mild"] = Kronecker(R(30, 20), R(25, 40), R(12, 10))
    ops["block_of_rect_kron"] = BlockDiag(Kronecker(R(2, 200), R(200, 2)), d(5), multiplicities=[40, 10])
    for nm, c in (("int", 3), ("float", 2.5), ("np.float32", np.float32(2.)), ("np.int64", np.int64(3)), ("ndarray0d", np.array(2.))):
        ops[f"scalar_{nm}_times_kron"] = c * Kronecker(d(20), d(20), d(25))
    ops["scalar_complex_times_kron"] = (1 + 1j) * Kronecker(d(20), d(20), d(25))
    return ops


def composite_annotated(ctx, rng):
    """the annotation sits on the COMPOSITE only (PSD(Kronecker(A, B, C)) with un-annotated factors, likewise BlockDiag,
    KronSum, Sum): rules whose applicability looks at the factors' annotations are only reached this way; n ~ 1000-2000
    so that a dense fallback (n^2 entries) is far above the bound while staying cheap"""
    from cola.ops import Dense, Kronecker, KronSum, BlockDiag, Diagonal, Sum
    PSD, SA = cola.PSD, cola.SelfAdjoint
    u = lambda n: Dense(spd(rng, n))  # noqa   (positive definite payload, NO annotation)
    s = ctx.rng.randint(0, 2)
    out = {}
    out["PSD(kron_u_12x11x10)"] = PSD(Kronecker(u(12), u(11), u(10 + s)))
    out["PSD(kron_u_36x36)"] = PSD(Kronecker(u(36), u(36 + s)))
    out["SA(kron_u_9x8x7x3)"] = SA(Kronecker(u(9), u(8), u(7), u(3)))
    out["PSD(block_u_mult)"] = PSD(BlockDiag(u(6), u(4 + s), multiplicities=[150, 100]))
    out["PSD(kronsum_u_10x11x9)"] = PSD(KronSum(u(10), u(11), u(9)))
    K = Kronecker(u(30), u(40))
    out["PSD(sum_u_kron_diag)"] = PSD(Sum(K, Diagonal(1. + rng.random(K.shape[0]))))
    return out


def psd_products(ctx, rng):
    """PSD-annotated products of structured factors (S K S with S diagonal, K Kronecker / BlockDiag), n ~ 3000-4000"""
    from cola.ops import Dense, Kronecker, BlockDiag, Diagonal
    PSD = cola.PSD
    d = lambda n: PSD(Dense(spd(rng, n)))  # noqa
    out = {}
    K = Kronecker(d(20), d(15), d(12))
    S = PSD(Diagonal(1. + rng.random(K.shape[0])))
    out["psd_SKS_kron"] = PSD(S @ K @ S)
    B = BlockDiag(d(30), d(20), multiplicities=[60, 90])
    S2 = PSD(Diagonal(1. + rng.random(B.shape[0])))
    out["psd_SBS_block"] = PSD(S2 @ B @ S2)
    K1 = Kronecker(d(10), d(100))
    S3 = PSD(Diagonal(1. + rng.random(K1.shape[0])))
    out["psd_SKS_n1000"] = PSD(S3 @ K1 @ S3)
    return out


def shape_tree(A):
    """Coq term of coq/C19_Cost.v's `sop` for a cola operator (None if a kind outside the model)"""
    from cola import ops as O
    c = type(A).__name__.split("[")[0]
    m, n = A.shape

    def lst(Ms):
        parts = [shape_tree(M) for M in Ms]
        if any(p is None for p in parts):
            return None
        s = "SNil"
        for p in reversed(parts):
            s = f"(SCons {p} {s})"
        return s
    if c in ("Dense", "Triangular"):
        return f"(SDense {m} {n})"
    if c == "Diagonal":
        return f"(SDiag {n})"
    if c == "Identity":
        return f"(SIdent {n})"
    if c == "ScalarMul":
        return f"(SScalar {n})"
    if c == "Permutation":
        return f"(SPerm {n})"
    if c == "Tridiagonal":
        return f"(STridiag {n})"
    if c in ("Product", "Sum", "Kronecker", "KronSum"):
        l = lst(A.Ms)
        return None if l is None else f"({ {'Product': 'SProd', 'Sum': 'SSum', 'Kronecker': 'SKron', 'KronSum': 'SKronSum'}[c]} {l})"
    if c == "BlockDiag":
        l = lst(A.Ms)
        return None if l is None else f"(SBlock {l} [{';'.join(str(int(x)) for x in A.multiplicities)}])"
    return None


def coq_cost(cases):
    """cases: [(name, sop term, k)] -> {name: dict(ok, rows, cols, storage, maxalloc, total, nallocs)}"""
    ents = ";\n".join(f"({t}, {k})" for _, t, k in cases)
    text = f"""From Coq Require Import List NArith Bool.
From Core Require Import C19_Cost.
Import ListNotations.
Local Open Scope N_scope.
Definition cases : list (sop * N) := [
{ents}
].
Definition lmax (l : list N) : N := fold_left N.max l 0.
Eval vm_compute in (map (fun c => let e := fst c in let k := snd c in
  [if ok e then 1 else 0; rows e; cols e; storage e; lmax (allocs e k); lsum (allocs e k); N.of_nat (List.length (allocs e k)); lmax (leafwise e)]) cases).
"""
    (rc, out), = CB.coqc_many([("c19_cost", text)], timeout=300)
    import re
    flat = " ".join(out.split())
    m = re.search(r"= (\[.*\]) : list \(list N\)", flat)
    if rc != 0 or not m:
        return None, out
    rows = eval(m.group(1).replace("%N", "").replace(";", ","), {"__builtins__": {}})
    keys = ["ok", "rows", "cols", "storage", "maxalloc", "total", "nallocs", "maxleaf"]
    return {name: dict(zip(keys, r)) for (name, _, _), r in zip(cases, rows)}, out


class _NoModel(dict):
    """stand-in when the Coq cost model cannot be evaluated: only the absolute bound 'peak < dense n*n' is checked"""
    def __missing__(self, key):
        return None


def run_cost(ctx, T, flags):
    """T is None: table-free mode (the rule table could not be regenerated) -- measurements against the model if
    C19_Cost still evaluates, and in any case against the absolute bound peak < n*n."""
    from cola.linalg.decompositions.decompositions import cholesky, plu
    import cola.linalg as LA
    import c04_universe as U
    Auto = LA.Auto
    full = ctx.tier == "thorough"
    ops = big_operators(ctx)
    mism, samples = [], []
    rng = np.random.default_rng(ctx.seed)
    # --- matmat ---
    wide = wide_operators(ctx, np.random.default_rng(ctx.seed + 29))
    cases, runs = [], []
    for name, A in list(ops.items()) + list(wide.items()):
        t = shape_tree(A)
        ks = [1, 4]
        if name in wide:
            ks = ["vec", 4] + ([32] if name.startswith(("block_mult", "kron_12", "kronsum_5", "sum_20")) else [])
        for k in ks:
            kk = 1 if k == "vec" else k
            cases.append((f"{name}@{k}", t if t is not None else "(SIdent 1)", kk))
            runs.append((name, A, k, t is not None))
    model, log = coq_cost(cases)
    if model is None:
        mism.append(dict(oracle_fail=False, what="cost shard did not compile; only the property's own bound is checked", log=log[-1500:]))
        model = _NoModel()
    ratios = {}
    worst_mm = 0.0
    for (cname, _, _), (name, A, k, modelled) in zip(cases, runs):
        rows, cols = A.shape
        nn = rows * cols
        kk = 1 if k == "vec" else k
        dt_ = np.dtype(A.dtype)
        X = rng.standard_normal((cols,) if k == "vec" else (cols, kk)).astype(dt_ if dt_.kind != "c" else np.float64)
        if dt_.kind == "c":
            X = X.astype(dt_)
        item = dt_.itemsize
        m = model[cname] if modelled else None
        out, peak, dt, err = measure(lambda: A @ X)
        pe = peak / item
        operand = max(X.nbytes, live_units(A, kk) * item)
        pbound = property_bound(operand, A, linalg=False)
        worst_mm = max(worst_mm, peak / pbound)
        if peak > pbound and not err:
            mism.append(dict(oracle_fail=True, what="A @ X: peak additional memory exceeds the property's bound "
                                                    f"{K1_MATMAT} x operand + {K2_MATMAT} x (dense sizes of the factors) + slack",
                             case=cname, shape=[rows, cols], k=k, dtype=str(dt_), peak_bytes=int(peak), bound_bytes=int(pbound), operand_bytes=int(operand),
                             factor_bytes=int(leaf_bytes(A)), dense_bytes=nn * item, times_bound=round(peak / pbound, 1)))
            continue
        if m is None:
            continue
        n = rows
        storage = m["storage"]
        rec = dict(case=cname, n=n, k=k, peak_elems=round(pe), model_max=m["maxalloc"], model_total=m["total"], storage=storage, seconds=round(dt, 4))
        ratios[cname] = round(pe / max(m["total"], 1), 3)
        if len(samples) < 5:
            samples.append(rec)
        bad = None
        if err:
            bad = f"product raised {err}"
        elif not m["ok"] and "rect" not in name:
            bad = "model says the operator is outside the structured class"
        elif name in ops and storage * 1000 > nn:
            bad = "generator produced an operator whose factor storage exceeds n^2/1000"
        elif pe > 3 * m["total"] + 4096:
            bad = "peak above 3x the model's total allocation"
        elif 3 * pe + 4096 < m["maxalloc"]:
            bad = "peak below a third of the model's largest allocation (model over-counts)"
        elif m["maxalloc"] > (rows + cols) * kk and "rect" not in name:
            bad = "model allocation above (rows+cols)*k (contradicts peak_bound)"
        elif "kron_rect" in name and m["maxalloc"] > live_units(A, kk):
            bad = "model allocation above the order-aware prefix bound (contradicts kron_rect_bound)"
        if bad:
            mism.append(dict(oracle_fail=False, what=bad + " (the property's own bound is respected)", **rec))
    # --- linear-algebra entry points with a structural rule, with and without explicit algorithm ---
    K2, K3, KS, BD, BK, KB = ops["kron2"], ops["kron3"], ops["kronsum2"], ops["block"], ops["block_kron"], ops["kron_block"]
    PK = ops["prod_kron_diag_scalar"]
    if flags.get("foreign_inv_scalarmul_device"):
        # C06 defect (inv(ScalarMul) puts the result on device 'cpu' -> "device mismatch in Product"): keep the product
        # without its scalar factor for inv/solve until that is repaired
        from cola.ops import Product, Diagonal
        PK = Product(K2, Diagonal(np.arange(1., K2.shape[0] + 1) / K2.shape[0] + 1))
    one = lambda A: np.ones(A.shape[0])  # noqa
    lin = []

    allow_generic = set()   # calls whose generic rule is itself matrix-free (integer powers = products, inv)

    def add(name, A, call, want=None, k=1, generic_ok=False):
        lin.append((name, A, call, want, k))
        if generic_ok:
            allow_generic.add(name)
    for nm, A in (("kron2", K2), ("kron3", K3), ("block", BD), ("block_kron", BK), ("kron_block", KB), ("prod", PK)):
        add(f"inv({nm})@b", A, lambda A=A: cola.inv(A) @ one(A), None)
        add(f"inv({nm},Auto())@b", A, lambda A=A: cola.inv(A, Auto()) @ one(A), None)
        add(f"solve({nm},b)", A, lambda A=A: cola.solve(A, one(A)), None)
        add(f"solve({nm},b,LU())", A, lambda A=A: cola.solve(A, one(A), LA.LU()), None)
        add(f"logdet({nm})", A, lambda A=A: cola.logdet(A), None)
        add(f"slogdet({nm},Cholesky(),Exact())", A, lambda A=A: cola.slogdet(A, LA.Cholesky(), LA.Exact()), None)
    for nm, A in (("kron2", K2), ("kron3", K3), ("block", BD), ("kronsum2", KS), ("sum_kron_diag", ops["sum_kron_diag"]), ("scalar_times_kron", None)):
        if A is None:
            continue
        add(f"diag({nm})", A, lambda A=A: LA.diag(A), None)
        add(f"diag({nm},0,Exact())", A, lambda A=A: LA.diag(A, 0, LA.Exact()), None)
        add(f"trace({nm})", A, lambda A=A: LA.trace(A), None)
        add(f"trace({nm},Auto())", A, lambda A=A: LA.trace(A, Auto()), None)
    for nm, A in (("kron2", K2), ("kron3", K3), ("block", BD)):
        add(f"cholesky({nm})@b", A, lambda A=A: cholesky(A) @ one(A), None)
        add(f"plu({nm})", A, lambda A=A: plu(A), None)
    for nm, A in (("block", BD), ("diag", ops["diag"]), ("scalar", ops["scalar"]), ("identity", ops["identity"])):
        for fname, f in (("exp", LA.exp), ("log", LA.log), ("sqrt", LA.sqrt)):
            add(f"{fname}({nm})@b", A, lambda A=A, f=f: f(A) @ one(A), None)
            add(f"{fname}({nm},Auto())@b", A, lambda A=A, f=f: f(A, Auto()) @ one(A), None)
        add(f"pow({nm},2.5)@b", A, lambda A=A: LA.pow(A, 2.5) @ one(A), None)
    # small-factor Kronecker / KronSum operators (3-4 tiny unequal factors)
    for idx_, (nm, A) in enumerate(ops.items()):
        if not full and idx_ % 2 and "8x8x8" not in nm and "8x7x6x5" not in nm:
            continue      # quick tier: every other small-factor operator for the entry points (all of them for A @ X)
        if nm.startswith("kron_small"):
            add(f"inv({nm})@b", A, lambda A=A: cola.inv(A) @ one(A), None)
            add(f"inv({nm},LU())@b", A, lambda A=A: cola.inv(A, LA.LU()) @ one(A), None)
            add(f"logdet({nm})", A, lambda A=A: cola.logdet(A), None)
            add(f"diag({nm})", A, lambda A=A: LA.diag(A), None)
            add(f"trace({nm},Exact())", A, lambda A=A: LA.trace(A, LA.Exact()), None)
        if nm.startswith("kron_smalldense"):
            add(f"cholesky({nm})@b", A, lambda A=A: cholesky(A) @ one(A), None)
            add(f"plu({nm})", A, lambda A=A: plu(A), None)
            add(f"sqrt({nm},Auto())@b", A, lambda A=A: LA.sqrt(A, Auto()) @ one(A), None)
            add(f"slogdet({nm},Cholesky(),Exact())", A, lambda A=A: cola.slogdet(A, LA.Cholesky(), LA.Exact()), None)
        if nm.startswith("kronsum_small"):
            add(f"diag({nm})", A, lambda A=A: LA.diag(A), None)
            add(f"trace({nm})", A, lambda A=A: LA.trace(A), None)
            add(f"exp({nm},Auto())@b", A, lambda A=A: LA.exp(A, Auto()) @ one(A), None)
            if not flags["exp_kronsum_requires_alg"]:
                add(f"exp({nm})@b", A, lambda A=A: LA.exp(A) @ one(A), None)
    # PSD-annotated products of structured factors with explicit algorithm objects, Auto, and none
    for nm, A in psd_products(ctx, np.random.default_rng(ctx.seed + 23)).items():
        for an, mk in (("Cholesky()", LA.Cholesky), ("LU()", LA.LU), ("Auto()", LA.Auto)):
            add(f"logdet({nm},{an})", A, lambda A=A, mk=mk: cola.logdet(A, mk()), None)
            add(f"inv({nm},{an})@b", A, lambda A=A, mk=mk: cola.inv(A, mk()) @ one(A), None)
            add(f"solve({nm},b,{an})", A, lambda A=A, mk=mk: cola.solve(A, one(A), mk()), None)
        add(f"logdet({nm})", A, lambda A=A: cola.logdet(A), None)
        add(f"slogdet({nm},Cholesky(),Exact())", A, lambda A=A: cola.slogdet(A, LA.Cholesky(), LA.Exact()), None)
        add(f"inv({nm})@b", A, lambda A=A: cola.inv(A) @ one(A), None)
        add(f"solve({nm},b)", A, lambda A=A: cola.solve(A, one(A)), None)
    add("exp(kronsum2,Auto())@b", KS, lambda: LA.exp(KS, Auto()) @ one(KS), None)
    # (explicit Eig()/Eigh() on Kronecker sums are measured at n ~ 1000 below: on a tree where the structural rule is lost
    # a dense LAPACK eig of a 10^4 x 10^4 matrix cannot be interrupted and would take the run far beyond its budget)
    add("exp(kronsum3,Auto())@b", ops["kronsum3"], lambda: LA.exp(ops["kronsum3"], Auto()) @ one(ops["kronsum3"]), None)
    add("sqrt(kron2)@b", K2, lambda: LA.sqrt(K2) @ one(K2), None)
    add("sqrt(kron3,Auto())@b", K3, lambda: LA.sqrt(K3, Auto()) @ one(K3), None)
    add("pow(kron2,2.5,Auto())@b", K2, lambda: LA.pow(K2, 2.5, Auto()) @ one(K2), None)
    add("pow(kron3,-0.5,Eig())@b", K3, lambda: LA.pow(K3, -0.5, LA.Eig()) @ one(K3), None)
    # the regions the flags spoil are covered again once the probe says the defect is gone
    if not flags["exp_kronsum_requires_alg"]:
        add("exp(kronsum2)@b", KS, lambda: LA.exp(KS) @ one(KS), None)
        add("exp(kronsum2,alg=Auto())@b", KS, lambda: LA.exp(KS, alg=Auto()) @ one(KS), None)
    if not flags["pow_kron_requires_alg"]:
        add("pow(kron2,2.5)@b", K2, lambda: LA.pow(K2, 2.5) @ one(K2), None)
        add("pow(kron2,2.5,alg=Auto())@b", K2, lambda: LA.pow(K2, 2.5, alg=Auto()) @ one(K2), None)
    if not flags["inv_gmres_ambiguous"]:
        # explicit iterative algorithm on a structured kind: the rule must work factor by factor.  max_iters is kept
        # small: GMRES's own Krylov workspace is max_iters^2 x (number of right-hand-side columns), and the factor-wise
        # Kronecker product hands every factor n/n_i columns -- with the default max_iters=1000 that workspace alone
        # (1e8 elements per factor here) exceeds the dense matrix; it is the requested algorithm's cost, not a
        # densification of the operator, and is outside this property
        add("inv(kron2,GMRES(max_iters=15))@b", K2, lambda: cola.inv(K2, LA.GMRES(max_iters=15)) @ one(K2), None)
        add("inv(block,GMRES(max_iters=15))@b", BD, lambda: cola.inv(BD, LA.GMRES(max_iters=15)) @ one(BD), None)
    # --- annotation on the composite only: the decomposition entry points themselves (cholesky, plu, Cholesky()(K),
    # LU()(K)) and every other function of the property's list, result-type clause included
    comp = composite_annotated(ctx, np.random.default_rng(ctx.seed + 37))
    for nm, A in comp.items():
        kind = type(A).__name__.split("[")[0]
        if kind in ("Kronecker", "BlockDiag"):
            add(f"cholesky({nm})@b", A, lambda A=A: (lambda r: (r, r @ one(A)))(cholesky(A)), kind)
            add(f"Cholesky()({nm})@b", A, lambda A=A: (lambda r: (r, r @ one(A)))(LA.Cholesky()(A)), kind)
            add(f"plu({nm})", A, lambda A=A: plu(A)[1:], kind)
            add(f"LU()({nm})", A, lambda A=A: LA.LU()(A)[1:], kind)
            add(f"inv({nm})@b", A, lambda A=A: (lambda r: (r, r @ one(A)))(cola.inv(A)), kind)
            add(f"inv({nm},LU())@b", A, lambda A=A: (lambda r: (r, r @ one(A)))(cola.inv(A, LA.LU())), kind)
            add(f"solve({nm},b,Auto())", A, lambda A=A: cola.solve(A, one(A), Auto()), None)
            add(f"logdet({nm})", A, lambda A=A: cola.logdet(A), None)
            add(f"slogdet({nm},LU(),Exact())", A, lambda A=A: cola.slogdet(A, LA.LU(), LA.Exact()), None)
            add(f"sqrt({nm})@b", A, lambda A=A: (lambda r: (r, r @ one(A)))(LA.sqrt(A)), kind)
            add(f"pow({nm},-1.5,Eig())@b", A, lambda A=A: (lambda r: (r, r @ one(A)))(LA.pow(A, -1.5, LA.Eig())), kind)
        if kind == "BlockDiag":
            add(f"exp({nm})@b", A, lambda A=A: (lambda r: (r, r @ one(A)))(LA.exp(A)), kind)
            add(f"log({nm},Eig())@b", A, lambda A=A: (lambda r: (r, r @ one(A)))(LA.log(A, LA.Eig())), kind)
        if kind == "KronSum":
            add(f"exp({nm},Auto())@b", A, lambda A=A: (lambda r: (r, r @ one(A)))(LA.exp(A, Auto())), "Kronecker")
            add(f"exp({nm},Eig())@b", A, lambda A=A: (lambda r: (r, r @ one(A)))(LA.exp(A, LA.Eig())), "Kronecker")
            if not flags["exp_kronsum_requires_alg"]:
                add(f"exp({nm})@b", A, lambda A=A: (lambda r: (r, r @ one(A)))(LA.exp(A)), "Kronecker")
        add(f"diag({nm})", A, lambda A=A: LA.diag(A), None)
        add(f"trace({nm},Exact())", A, lambda A=A: LA.trace(A, LA.Exact()), None)
    # --- exp of Kronecker sums with every explicit algorithm (n <= ~1000: the dense fallback is cheap to exhibit)
    from cola.ops import KronSum as _KS, Dense as _D2
    erng = np.random.default_rng(ctx.seed + 41)
    KSs = {"kronsum_psd_10x9x8": _KS(*[cola.PSD(_D2(spd(erng, m_))) for m_ in (10, 9, 8)]),
           "kronsum_psd_30x31": _KS(*[cola.PSD(_D2(spd(erng, m_))) for m_ in (30, 31)])}
    for nm, A in KSs.items():
        # (explicit Lanczos / Arnoldi objects are left to the selection correspondence: their own Krylov workspace, handed
        # n/n_i columns per factor by the factor-wise product, is the requested algorithm's cost and not bounded here)
        for an, mk in (("Eig()", LA.Eig), ("Eigh()", LA.Eigh), ("Auto()", LA.Auto)):
            add(f"exp({nm},{an})@b", A, lambda A=A, mk=mk: (lambda r: (r, r @ one(A)))(LA.exp(A, mk())), "Kronecker")
            if not flags["exp_kronsum_requires_alg"]:
                add(f"exp({nm},alg={an})@b", A, lambda A=A, mk=mk: (lambda r: (r, r @ one(A)))(LA.exp(A, alg=mk())), "Kronecker")
    # --- every structural rule with each admissible python / numpy TYPE of its scalar arguments, at a size where the
    # generic fallback (dense eigendecomposition of the full matrix) is measurable: n = 1000, factors 10 x 10 x 10
    from cola.ops import Dense as _Dense, Kronecker as _Kron
    prng = np.random.default_rng(ctx.seed + 31)
    K10 = _Kron(*[cola.PSD(_Dense(spd(prng, 10))) for _ in range(3)])
    alphas = [("2", 2), ("-2", -2), ("12", 12), ("0", 0), ("-1", -1), ("np.int64(-3)", np.int64(-3)), ("np.int64(3)", np.int64(3)),
              ("np.int32(11)", np.int32(11)), ("np.float32(2.5)", np.float32(2.5)), ("np.float64(0.5)", np.float64(0.5)), ("2.5", 2.5), ("-0.5", -0.5),
              ("(0.5+0.25j)", complex(0.5, 0.25)), ("True", True)]
    for an, al in alphas:
        add(f"pow(kron10x10x10,{an})@b", K10, lambda al=al: (lambda r: (r, r @ one(K10)))(LA.pow(K10, al)), "Kronecker")
        if full:
            add(f"pow(kron10x10x10,{an},Auto())@b", K10, lambda al=al: (lambda r: (r, r @ one(K10)))(LA.pow(K10, al, Auto())), "Kronecker")
        add(f"pow(kron10x10x10,{an},Eig())@b", K10, lambda al=al: (lambda r: (r, r @ one(K10)))(LA.pow(K10, al, LA.Eig())), "Kronecker")
        add(f"pow(kron10x10x10,{an},alg=Eigh())@b", K10, lambda al=al: (lambda r: (r, r @ one(K10)))(LA.pow(K10, al, alg=LA.Eigh())), "Kronecker")
    BM = wide["block_mult_1200x2_400x3"]
    for an, al in alphas[:3] + alphas[5:6] + alphas[8:9] + alphas[10:11]:
        gok = isinstance(al, (int, np.integer)) and -1 <= int(al) < 10   # integer powers: product([A] * k) / inv, matrix-free
        add(f"pow(block_mult,{an})@b", BM, lambda al=al: LA.pow(BM, al) @ one(BM), None, 1, gok)
        add(f"pow(diag,{an})@b", ops["diag"], lambda al=al: LA.pow(ops["diag"], al) @ one(ops["diag"]), None, 1, gok)
        add(f"pow(scalar,{an},Auto())@b", ops["scalar"], lambda al=al: LA.pow(ops["scalar"], al, Auto()) @ one(ops["scalar"]), None, 1, gok)
    for kk_ in (1, -2, 5):
        add(f"diag(diag,{kk_})", ops["diag"], lambda kk_=kk_: LA.diag(ops["diag"], kk_), None)
        add(f"diag(identity,{kk_},Exact())", ops["identity"], lambda kk_=kk_: LA.diag(ops["identity"], kk_, LA.Exact()), None)
        add(f"diag(scalar,{kk_})", ops["scalar"], lambda kk_=kk_: LA.diag(ops["scalar"], kk_), None)
    # --- large multiplicities, many tiny factors, many terms, identity / diagonal factors, matrix right-hand sides
    ones4 = lambda A: np.ones((A.shape[0], 4))  # noqa
    for nm in ("block_mult_1200x2_400x3", "block_mult_5000x4", "block_mult_mixed", "block_60blocks"):
        A = wide[nm]
        every = full or nm == "block_mult_1200x2_400x3"     # quick tier: the whole battery on one, the core of it on the others
        add(f"inv({nm})@b", A, lambda A=A: (lambda r: (r, r @ one(A)))(cola.inv(A)), "BlockDiag")
        add(f"solve({nm},B4,Cholesky())", A, lambda A=A: cola.solve(A, ones4(A), LA.Cholesky()), None, 4)
        add(f"logdet({nm})", A, lambda A=A: cola.logdet(A), None)
        add(f"sqrt({nm})@b", A, lambda A=A: (lambda r: (r, r @ one(A)))(LA.sqrt(A)), "BlockDiag")
        add(f"cholesky({nm})@b", A, lambda A=A: (lambda r: (r, r @ one(A)))(cholesky(A)), "BlockDiag")
        if every:
            add(f"inv({nm},LU())@B4", A, lambda A=A: cola.inv(A, LA.LU()) @ ones4(A), None, 4)
            add(f"solve({nm},b)", A, lambda A=A: cola.solve(A, one(A)), None)
            add(f"logdet({nm},Cholesky())", A, lambda A=A: cola.logdet(A, LA.Cholesky()), None)
            add(f"diag({nm})", A, lambda A=A: LA.diag(A), None)
            add(f"trace({nm},Exact())", A, lambda A=A: LA.trace(A, LA.Exact()), None)
            add(f"exp({nm},Auto())@b", A, lambda A=A: (lambda r: (r, r @ one(A)))(LA.exp(A, Auto())), "BlockDiag")
            add(f"log({nm},alg=Eigh())@b", A, lambda A=A: LA.log(A, alg=LA.Eigh()) @ one(A), None)
            add(f"plu({nm})", A, lambda A=A: plu(A), None)
    for nm in ("kron_12x2", "kron_8x3", "kron_ident_dense", "kron_dense_ident", "kron_diag_dense", "nested_deep"):
        A = wide[nm]
        add(f"inv({nm})@b", A, lambda A=A: (lambda r: (r, r @ one(A)))(cola.inv(A)), "Kronecker")
        add(f"solve({nm},B4,LU())", A, lambda A=A: cola.solve(A, ones4(A), LA.LU()), None, 4)
        add(f"logdet({nm})", A, lambda A=A: cola.logdet(A), None)
        add(f"diag({nm})", A, lambda A=A: LA.diag(A), None)
        add(f"trace({nm})", A, lambda A=A: LA.trace(A), None)
        add(f"sqrt({nm},Auto())@b", A, lambda A=A: (lambda r: (r, r @ one(A)))(LA.sqrt(A, Auto())), "Kronecker")
        if nm in ("kron_12x2", "kron_8x3", "kron_diag_dense"):
            add(f"cholesky({nm})@b", A, lambda A=A: (lambda r: (r, r @ one(A)))(cholesky(A)), "Kronecker")
            add(f"plu({nm})", A, lambda A=A: plu(A), None)
    A = wide["kronsum_5terms"]
    add("exp(kronsum_5terms,Auto())@b", A, lambda A=A: (lambda r: (r, r @ one(A)))(LA.exp(A, Auto())), "Kronecker")
    add("diag(kronsum_5terms)", A, lambda A=A: LA.diag(A), None)
    add("trace(kronsum_5terms)", A, lambda A=A: LA.trace(A), None)
    A = wide["sum_20terms"]
    add("diag(sum_20terms)", A, lambda A=A: LA.diag(A), None)
    add("trace(sum_20terms,Exact())", A, lambda A=A: LA.trace(A, LA.Exact()), None)
    for nm in ("kron_complex", "kron_float32", "block_complex_mult"):
        A = wide[nm]
        add(f"inv({nm})@b", A, lambda A=A: cola.inv(A) @ np.ones(A.shape[0], dtype=A.dtype), None)
        add(f"logdet({nm})", A, lambda A=A: cola.logdet(A), None)
        add(f"diag({nm})", A, lambda A=A: LA.diag(A), None)
    lcases = []
    for name, A, call, want, k in lin:
        t_ = shape_tree(A)
        lcases.append((name, t_ if t_ is not None else "(SIdent 1)", k))
    lmodel, log = coq_cost(lcases)
    if lmodel is None:
        mism.append(dict(oracle_fail=False, what="cost shard (linalg) did not compile; only the absolute bound peak < n*n is checked", log=log[-1500:]))
        lmodel = _NoModel()
    nlin = 0
    worst = 0.0
    worst_pb = 0.0
    slow = []
    generic_selected = []
    for name, A, call, want, k in lin:
        n = A.shape[0]
        m = lmodel[name]
        with TC.tracing() as tlog:
            out, peak, dt, err = measure(call)
        nlin += 1
        # the rule that finally ran, observed through plum's resolver on the live table (first dispatch of the call
        # and the forwarding dispatches that receive the same operator object)
        fn0 = name.split("(")[0]
        fn0 = U.WRAPPERS.get(fn0, fn0)
        ch = observed_chain(T, fn0, tlog) if T is not None else []
        sel = None
        if ch and ch[-1][1] is not None and ch[-1][1] >= 2:
            g = ch[-1][0]
            r = T["funcs"][g]["rules"][ch[-1][1] - 2]
            gpos = [i for i, c in enumerate(T["U"].LATTICE[g][0]) if isinstance(c, str) and c.startswith("OPS")][0]
            hint = T["type_names"][r["types"][gpos]]
            sel = f"{g}({', '.join(T['type_names'][t] for t in r['types'])})"
            if hint in ("LinearOperator", "Any") and r["cond"] is None and name not in allow_generic:
                generic_selected.append((name, sel))
        pe = peak / 8.0
        item = max(np.dtype(A.dtype).itemsize, 8)
        operand = n * k * item * (2 if ("Eig()" in name or "j)" in name) else 1)   # complex results take two units
        pbound = property_bound(operand, A, linalg=True)
        if "max_iters=15" in name:
            pbound += 8 * 16 * operand   # Krylov bases of the explicitly requested iterative algorithm
        worst_pb = max(worst_pb, peak / pbound)
        if peak > pbound:
            mism.append(dict(oracle_fail=True, what="linear-algebra entry point on a structured operator: peak additional memory exceeds the property's bound "
                                                    f"{K1_LINALG} x operand + {K2_LINALG} x (dense sizes of the factors) + slack" + (f" ({err})" if err else ""),
                             case=name, n=n, peak_bytes=int(peak), bound_bytes=int(pbound), operand_bytes=int(operand), factor_bytes=int(leaf_bytes(A)),
                             dense_bytes=n * n * item, times_bound=round(peak / pbound, 1), selected_rule=sel, seconds=round(dt, 3)))
            continue
        if want and not err:
            got_t = type(out[0] if isinstance(out, tuple) else out).__name__.split("[")[0]
            if got_t != want and pe * 50 > n * n:
                mism.append(dict(oracle_fail=True, what=f"result of a structural rule is a {got_t}, not a {want}, and an array of the order of the full matrix was allocated",
                                 case=name, n=n, peak_bytes=int(peak), bound_bytes=int(pbound), selected_rule=sel))
                continue
            if got_t != want:
                mism.append(dict(oracle_fail=False, what=f"result of a structural rule is a {got_t}, not a {want} (the memory bound of the property is respected on this call)",
                                 case=name, n=n, peak_bytes=int(peak), bound_bytes=int(pbound), selected_rule=sel))
                continue
        if m is None:
            if err and "LookupError" in err:
                mism.append(dict(oracle_fail=True, what=f"entry point raised {err}", case=name, n=n))
            continue
        bound = DENSE_TEMPS * m["storage"] + m["total"] + 2 * n * k
        if "max_iters=15" in name:
            bound += 8 * 16 * n      # Krylov bases of the explicitly requested iterative algorithm: (max_iters+1) x n per copy
        worst = max(worst, pe / bound)
        rec = dict(case=name, n=n, peak_elems=round(pe), model_bound=bound, storage=m["storage"], seconds=round(dt, 3), selected_rule=sel)
        slow.append((round(dt, 2), name))
        if len(samples) < 9 and nlin % 11 == 0:
            samples.append(rec)
        if sel is not None and generic_selected and generic_selected[-1][0] == name:
            mism.append(dict(oracle_fail=bool(pe * 50 > n * n), what="a generic (LinearOperator-typed, unconditional) rule finally ran for a large structured operator that the statement says has a structural rule", **rec))
        if err:
            # errors raised by the selected rule are outside this property unless it is a lookup failure
            if "LookupError" in err:
                mism.append(dict(oracle_fail=True, what=f"entry point raised {err}", **rec))
            elif err.startswith("Timeout") or err.startswith("MemoryError"):
                dense = pe * 50 > n * n
                mism.append(dict(oracle_fail=bool(dense), what=f"entry point on a structured operator: {err}; peak so far {round(pe)} elements" + (" -- of the order of the full matrix" if dense else ""), **rec))
            else:
                rec["error"] = err
                mism.append(dict(oracle_fail=False, what=f"entry point failed on a structured operator the model accepts: {err}", **rec))
            continue
        if pe > 3 * bound:
            dense = pe * 50 > n * n
            mism.append(dict(oracle_fail=bool(dense), what="peak above 3x (8 x factor storage + matmat allocations)" + (" -- of the order of the full matrix" if dense else ""), **rec))
        if want and hasattr(out, "shape") is False:
            pass
    extra = dict(matmat_cases=len(cases), linalg_cases=nlin, matmat_peak_over_model_total=ratios,
                 linalg_worst_peak_over_bound=round(worst, 3), matmat_worst_peak_over_property_bound=round(worst_mm, 3),
                 linalg_worst_peak_over_property_bound=round(worst_pb, 3),
                 property_bound=dict(K1_matmat=K1_MATMAT, K2_matmat=K2_MATMAT, K1_linalg=K1_LINALG, K2_linalg=K2_LINALG, slack_bytes=SLACK),
                 slowest_linalg=sorted(slow, reverse=True)[:8],
                 big_n=sorted({A.shape[0] for A in list(ops.values()) + list(wide.values())}))
    return mism, len(cases) + nlin, extra, samples


# ------------------------------------------------------------------------------------------------------------
# (c) flags
# ------------------------------------------------------------------------------------------------------------
def probe_flags(T):
    import cola.linalg as LA
    from cola.ops import Dense, Kronecker, KronSum
    S = np.array([[2., 1.], [1., 3.]])
    n2 = 30
    rng = np.random.default_rng(1)
    B = spd(rng, n2)
    KS = KronSum(Dense(B), Dense(B))
    K = Kronecker(Dense(B), Dense(B))
    out = {}
    fl = []
    # presence is decided on a tiny instance by the type of the (lazy) result -- immune to machine load; the 900 x 900
    # instance only supplies the memory figures of the witness
    tiny = spd(rng, 4)
    KSt, Kt = KronSum(Dense(tiny), Dense(tiny)), Kronecker(Dense(tiny), Dense(tiny))

    def generic_result(f):
        try:
            return not type(f()).__name__.startswith("Kronecker")
        except Exception:
            return True
    # exp(KronSum) without a positional algorithm: result type and memory
    r, peak, _, err = measure(lambda: LA.exp(KS))
    dens = generic_result(lambda: LA.exp(KSt))
    r2, _, _, err2 = measure(lambda: LA.exp(KS, LA.Auto()))
    b = np.ones(n2 * n2)
    _, pk_gen, _, _ = measure(lambda: LA.exp(KS) @ b)
    _, pk_str, _, _ = measure(lambda: LA.exp(KS, LA.Auto()) @ b)
    fl.append(dict(flag="exp_kronsum_requires_alg", present=bool(dens),
                   what="exp(KronSum) with the algorithm omitted (or passed by keyword) selects the generic one-argument rule (dense eigendecomposition of the full matrix below 1e6 entries, an n x max_iters Krylov basis above) instead of working factor by factor: the structural rule exp(KronSum, alg) is registered without the default",
                   witness=f"cola.linalg.exp(KronSum(Dense({n2}x{n2}),Dense({n2}x{n2})))",
                   expected="Kronecker of the factors' exponentials", got=dict(result=type(r).__name__.split('[')[0] if err is None else err, apply_peak_elems=round(pk_gen / 8), apply_peak_elems_with_alg=round(pk_str / 8),
                                                                               n=n2 * n2, with_alg=type(r2).__name__.split('[')[0] if err2 is None else err2)))
    r, peak, _, err = measure(lambda: LA.pow(K, 2.5))
    _, pk_gen, _, _ = measure(lambda: LA.pow(K, 2.5) @ b)
    _, pk_str, _, _ = measure(lambda: LA.pow(K, 2.5, LA.Auto()) @ b)
    dens = generic_result(lambda: LA.pow(Kt, 2.5))
    r2, _, _, err2 = measure(lambda: LA.pow(K, 2.5, LA.Auto()))
    fl.append(dict(flag="pow_kron_requires_alg", present=bool(dens),
                   what="pow(Kronecker, alpha) with the algorithm omitted (or passed by keyword) selects the generic rule (dense eigendecomposition of the full matrix below 1e6 entries, an n x max_iters Krylov basis above) instead of working factor by factor: pow(Kronecker, alpha, alg) is registered without the default",
                   witness=f"cola.linalg.pow(Kronecker(Dense({n2}x{n2}),Dense({n2}x{n2})), 2.5)",
                   expected="Kronecker of the factors' powers", got=dict(result=type(r).__name__.split('[')[0] if err is None else err, apply_peak_elems=round(pk_gen / 8), apply_peak_elems_with_alg=round(pk_str / 8),
                                                                         n=n2 * n2, with_alg=type(r2).__name__.split('[')[0] if err2 is None else err2)))
    try:
        cola.inv(K, LA.GMRES())
        amb = False
        got = "no error"
    except Exception as e:  # noqa
        amb = type(e).__name__ == "AmbiguousLookupError"
        got = type(e).__name__
    fl.append(dict(flag="inv_gmres_ambiguous", present=amb,
                   what="inv(Kronecker, GMRES()) raises AmbiguousLookupError: the GMRES base case has precedence 0 and ties with the structural rule (same defect as the C04 tuples inv(k,GMRES))",
                   witness="cola.inv(Kronecker(Dense,Dense), GMRES())", expected="the Kronecker rule", got=got))
    # candidate (reported only once a `known:`/`fixed:` line names it): a TALL factor before a WIDE one -- the fixed
    # left-to-right contraction applies the tall factor to un-reduced data; for column (x) row the intermediate is the
    # full n x n matrix.  The order-aware bound (C19_kron_rect_bound) predicts exactly this, the order-free bound of the
    # statement (a fixed multiple of the operand) is exceeded.
    Nn = 1200
    CR = Kronecker(Dense(rng.standard_normal((Nn, 1))), Dense(rng.standard_normal((1, Nn))))
    xx = np.ones(Nn)
    _, pk_cr, _, err_cr = measure(lambda: CR @ xx)
    order_free = K1_MATMAT * Nn * 8 + K2_MATMAT * leaf_bytes(CR) + SLACK
    cand = dict(flag="kron_tall_before_wide_intermediate", present=bool(err_cr is None and pk_cr > order_free),
                what="Kronecker(tall, wide) @ x: the left-to-right contraction applies the tall factor first and allocates rows_1 x cols_2 x k entries "
                     "(the full n x n matrix for column (x) row) although contracting the wide factor first needs only the operand size",
                witness=f"Kronecker(Dense({Nn}x1), Dense(1x{Nn})) @ ones({Nn})", expected=f"peak <= {order_free} bytes (12 x operand + factors)",
                got=dict(peak_bytes=int(pk_cr), dense_bytes=Nn * Nn * 8))
    known_txt, fixed_txt = core.parse_known()
    if any(k["property"] == "C19" and k["flag"] == cand["flag"] for k in known_txt + fixed_txt):
        fl.append(cand)
    flags = {f["flag"]: f["present"] for f in fl}
    flags["candidate_kron_tall_before_wide_intermediate"] = cand["present"]
    try:
        cola.inv(2. * Dense(S)) @ np.ones(2)
        flags["foreign_inv_scalarmul_device"] = False
    except AssertionError as e:
        flags["foreign_inv_scalarmul_device"] = "device" in str(e)
    except Exception:
        flags["foreign_inv_scalarmul_device"] = False
    return flags, fl


def run(ctx):
    mismatches, extra = [], {}
    T = None
    try:
        T = TR.build_table(0)
    except TR.FailClosed as e:
        mismatches.append(dict(oracle_fail=False, what=f"translator fails closed (the rule table cannot be regenerated from this tree): {e}"))
    except Exception:
        mismatches.append(dict(oracle_fail=False, what="rule table could not be built", harness_error=traceback.format_exc()[-2000:]))
    if T is None:
        # table-independent part only: memory measurements on the large structured operators against the model (if it
        # still evaluates) and the absolute bound peak < dense n*n, so that a failing input can be exhibited
        import c04_universe as U0
        U0.load_all()
        if CB.alt_dir():
            CB.ensure_alt()
        flags, findings = probe_flags(None)
        try:
            m, n, ex, samples = run_cost(ctx, None, flags)
        except Exception:
            m, n, ex, samples = [dict(oracle_fail=False, what="cost correspondence crashed", harness_error=traceback.format_exc()[-2500:])], 0, {}, []
        extra.update(ex)
        extra["table_free_mode"] = True
        return dict(evaluations=n, distinct_nontrivial=n, rule="table-free mode: large structured operators x entry point",
                    samples=samples, mismatches=mismatches + m, findings=findings, extra=extra)
    flags, findings = probe_flags(T)
    if CB.alt_dir():
        if not os.path.exists(TR.OUT):
            TR.main()
        mismatches += CB.theorem_mismatches("C19")
        extra["private_build"] = CB.alt_dir()
    # the Coq exception list and the probes must tell the same story: a flag probed absent means the exception is unused
    evaluations = 0
    samples = []
    try:
        t0 = time.time()
        m, n, ex = run_selection(ctx, T)
        mismatches += m
        evaluations += n
        extra.update(ex)
        extra["selection_seconds"] = round(time.time() - t0, 1)
    except Exception:
        mismatches.append(dict(oracle_fail=False, what="selection correspondence crashed", harness_error=traceback.format_exc()[-2500:]))
    try:
        t0 = time.time()
        m, n, ex, samples = run_cost(ctx, T, flags)
        mismatches += m
        evaluations += n
        extra.update(ex)
        extra["cost_seconds"] = round(time.time() - t0, 1)
    except Exception:
        mismatches.append(dict(oracle_fail=False, what="cost correspondence crashed", harness_error=traceback.format_exc()[-2500:]))
    nontrivial = extra.get("selection_compared", 0) + extra.get("matmat_cases", 0) + extra.get("linalg_cases", 0)
    return dict(evaluations=evaluations, distinct_nontrivial=nontrivial,
                rule="selection cases are structured kinds x function x way of passing the algorithm (all distinct); cost cases are large operators (n >= 8000, factor storage <= n^2/1000) x entry point",
                samples=samples, mismatches=mismatches, findings=findings, extra=extra)
