"""C04 -- rule selection is total and unambiguous over the whole finite lattice.

Proof side (coq/PropsC04.v): the Gallina model of the plum fork's resolver swept by vm_compute over the complete
lattice on the table that harness/translate_c04_rules.py regenerates from the live registry on every run.
Correspondence (exhaustive, every run): for every lattice tuple the Gallina `resolve` (evaluated inside Coq on the
generated table) against plum's own `resolve_method` on the live table; the abstraction is checked by resolving a
second set of representative instances; non-unique tuples are replayed through the public function."""
import os, sys, json, time, traceback
import core
import shim  # noqa: F401
import translate_c04_rules as TR
import c04_lattice as LT
import c04_calls as CG
import c04_build as CB

TRUSTED_BASE = [
    "Coq 8.16.1 kernel + vm_compute",
    "coq/C04_Resolver.v as a reading of plum/resolver.py:142-207, signature.py (__le__, match, append_default_args), "
    "util.py (Comparable), dispatcher.py (abstract), function.py (__call__) -- validated exhaustively against plum's own "
    "resolve_method on every lattice tuple on every run",
    "harness/translate_c04_rules.py (reads the live registry, tabulates beartype's order, _is_bearable on representative "
    "instances and the cond= lambdas; fails closed on unknown type-hint forms, varargs, multi-argument conditions)",
    "harness/c04_universe.py: one representative instance per abstract argument (class, declared annotation, "
    "all-factors-square bit); faithfulness checked by a second instance set with other sizes/payloads",
    "the admissible lattice (DESIGN.md Appendix B) as transcribed in c04_universe.LATTICE",
    "KNOWN_FINDINGS.txt exception list (class-level tuples; '*' = any operator class)",
]
ASSUMPTIONS = [
    "isinstance-based dispatch depends on an argument only through its class; rule conditions only through the "
    "tabulated (class, annotations, all-factors-square) abstraction (checked on two instance sets)",
    "second-level calls made inside rules are covered through the hand-written call graph (harness/c04_calls.py), "
    "validated against the nested dispatches observed while calling the public functions",
]

SHARD = 7000


def coq_shards(T, full):
    """[(name, text, fn, [call records])]: per function (big ones split along the first required parameter)"""
    rid = T["rid"]
    jobs = []
    tag = "ext" if full == "ext" else ("full" if full else "red")
    algs = set(TR.alg_names(T))
    for fn, d in T["funcs"].items():
        req, opt = TR.choices(T, fn, full)
        if full == "ext" and not any(c and set(c) <= algs for c in opt):
            continue        # no algorithm parameter: the extended lattice adds nothing
        per_first = 1
        for c in req[1:]:
            per_first *= len(c)
        per_first *= len(LT.forms(opt))
        step = max(1, SHARD // max(per_first, 1))
        first = req[0]
        for k in range(0, len(first), step):
            sub = first[k:k + step]
            cs = LT.calls([sub] + req[1:], opt)
            jobs.append(dict(fn=fn, sub=sub, calls=cs, name=f"c04_{tag}_{fn}_{k // step}", tag=tag))
    return jobs


def shard_text(T, job, tag, expected):
    rid = T["rid"]
    fn = job["fn"]
    sub = "[" + ";".join(f"{rid[n]}%positive" for n in job["sub"]) + "]"
    exp = "[" + ";".join(str(c) for c in expected) + "]%N"
    return f"""From Coq Require Import List ZArith NArith PArith Bool String.
From Core Require Import C04_Resolver C04_RuleTable.
Import ListNotations.
Definition fs0 := spec_{tag}_{fn}.
Definition fs := mkspec (fname fs0) (frules fs0) (fabs fs0) ({sub} :: tl (freq fs0)) (fopt fs0).
Definition expected : list N := {exp}.
Eval vm_compute in (N.of_nat (List.length (calls fs)), mismatches le_row bear_row fs expected).
"""


def parse_coq(out):
    import re
    flat = " ".join(out.split())
    m = re.search(r"= \((\d+)%N, (\[[^\]]*\]|nil)\)", flat)
    if not m:
        return None
    n = int(m.group(1))
    body = m.group(2).strip("[]")
    idx = [int(x.replace("%N", "").strip()) for x in body.split(";") if x.strip() and x.strip() != "nil"]
    return n, idx


def public_call(T, fn, req, opt):
    """call the public function on the representative instances; returns (exception class name or None, message)"""
    U = T["U"]
    f = U.public_callable(fn)
    reps = T["reps"]
    args = [reps[n].obj for n in req]
    kwargs = {}
    names = [n for (n, _) in U.LATTICE[fn][1]]
    for (k, x), pn in zip(opt, names):
        if k == "P":
            args.append(reps[x].obj)
        elif k == "K":
            kwargs[pn] = reps[x].obj
    try:
        f(*args, **kwargs)
        return None, ""
    except Exception as e:  # noqa
        return type(e).__name__, str(e)[:300]


def run(ctx):
    full = ctx.tier == "thorough"
    tag = "full" if full else "red"
    try:
        T = TR.build_table(0)
    except TR.FailClosed as e:
        return dict(evaluations=0, distinct_nontrivial=0, rule="", samples=[], findings=[],
                    mismatches=[dict(oracle_fail=False, what=f"translator fails closed (unknown type-hint form / unmodelled registration): {e}")])
    mismatches, findings, samples = [], [], []
    extra = {}
    if CB.alt_dir():
        # a tree other than /repo: the table and the proofs are built privately (see c04_build.py)
        if not os.path.exists(TR.OUT):
            TR.main()
        mismatches += CB.theorem_mismatches("C04")
        extra["private_build"] = CB.alt_dir()
    # 0. the table `make` compiled is the table of this tree
    disk = open(TR.OUT).read() if os.path.exists(TR.OUT) else ""
    if disk != TR.coq_text(T):
        mismatches.append(dict(oracle_fail=False, what="coq/C04_RuleTable.v on disk differs from the table regenerated in this process (translator not deterministic?)"))

    # 1. live verdicts on the lattice + Coq verdicts, compared inside Coq
    # ... on the admissible lattice (a unique rule is required) and on the extended lattice with EVERY Algorithm
    # subclass of the live package in every algorithm position (ties are never acceptable there)
    jobs = coq_shards(T, full) + coq_shards(T, "ext")
    t0 = time.time()
    nonunique = []
    ext_ties = {}
    ncalls = 0
    seen_disp = {}
    for job in jobs:
        fn = job["fn"]
        d = T["funcs"][fn]
        exp = []
        for (req, opt) in job["calls"]:
            da = LT.dargs(d["abstract"], req, opt)
            key = (fn, tuple(da))
            if key not in seen_disp:
                seen_disp[key] = LT.live_verdict(d["function"], d["rules"], [T["reps"][n].obj for n in da])
            v = seen_disp[key]
            exp.append(v)
            if job["tag"] == "ext":
                if v == 1:
                    ext_ties.setdefault((fn, tuple(da)), (req, opt))
            elif v < 2:
                nonunique.append((fn, req, opt, da, v))
        job["expected"] = exp
        ncalls += len(exp)
    extra["live_seconds"] = round(time.time() - t0, 1)
    t0 = time.time()
    res = CB.coqc_many([(j["name"], shard_text(T, j, j["tag"], j["expected"])) for j in jobs], timeout=900)
    extra["coq_seconds"] = round(time.time() - t0, 1)
    for job, (rc, out) in zip(jobs, res):
        p = parse_coq(out) if rc == 0 else None
        if p is None:
            mismatches.append(dict(oracle_fail=False, what="generated shard did not compile / no result", shard=job["name"], log=out[-1500:]))
            continue
        n, idx = p
        if n != len(job["calls"]):
            mismatches.append(dict(oracle_fail=False, what="lattice enumeration of Coq and of the harness differ in length", shard=job["name"], coq=n, harness=len(job["calls"])))
            continue
        for i in idx[:20]:
            req, opt = job["calls"][i]
            da = LT.dargs(T["funcs"][job["fn"]]["abstract"], req, opt)
            mismatches.append(dict(oracle_fail=False, what="Gallina resolve and plum resolve_method disagree",
                                   case=LT.form_str(job["fn"], req, opt, [n for n, _ in T["U"].LATTICE[job["fn"]][1]]),
                                   dispatched=da, live_code=job["expected"][i], shard=job["name"], index=i))
    # 2. abstraction check: a second set of representative instances must give the same live verdicts
    T1 = TR.build_table(1)
    nabs = 0
    if T1["rep_names"] != T["rep_names"] or T1["bear"] != T["bear"] or T1["le"] != T["le"]:
        mismatches.append(dict(oracle_fail=False, what="isinstance/order table differs between the two representative instance sets"))
    for (fn, da), v in list(seen_disp.items()):
        d1 = T1["funcs"][fn]
        v1 = LT.live_verdict(d1["function"], d1["rules"], [T1["reps"][n].obj for n in da])
        nabs += 1
        if v1 != v:
            mismatches.append(dict(oracle_fail=False, what="live verdict depends on more than the abstraction (class, annotations, square bit)",
                                   case=f"{fn}{tuple(da)}", variant0=v, variant1=v1))
    extra["abstraction_checked"] = nabs

    seen_nu = {(fn, tuple(da)) for (fn, req, opt, da, v) in nonunique}
    for (fn, da), (req, opt) in ext_ties.items():
        if (fn, da) not in seen_nu:
            nonunique.append((fn, req, opt, list(da), 1))
    extra["extended_lattice_ties"] = len(ext_ties)
    # 3. non-unique tuples: known list or violation (replayed through the public call)
    known_txt, _ = core.parse_known()
    adopted = {k["flag"] for k in known_txt if k["property"] == "C04"}
    by_known = {}
    unknown = {}
    for (fn, req, opt, da, v) in nonunique:
        kind = "Ambiguous" if v == 1 else "NotFound"
        kt = None
        cl = [T["reps"][n].cls for n in da]
        for k in T["known"]:
            if k["fn"] == fn and k["kind"] == kind and len(k["classes"]) == len(cl) and all(p == "*" or p == c for p, c in zip(k["classes"], cl)):
                kt = k
                break
        if kt is not None:
            by_known.setdefault(kt["tuple"], []).append((fn, req, opt, da, kind))
        else:
            unknown.setdefault((LT.class_tuple(T, fn, da), kind), []).append((fn, req, opt, da, kind))
    opt_names = lambda fn: [n for n, _ in T["U"].LATTICE[fn][1]]  # noqa
    proposed_present = []
    for k in T["known"]:
        hits = by_known.get(k["tuple"], [])
        got = None
        if hits:
            fn, req, opt, da, kind = hits[0]
            got = public_call(T, fn, req, opt)
        f = dict(flag=k["tuple"], present=bool(hits), what=f"tuple={k['tuple']} {k['kind']} {k['text'].split(' ', 1)[-1] if ' ' in k['text'] else ''}".strip(),
                 witness=LT.form_str(hits[0][0], hits[0][1], hits[0][2], opt_names(hits[0][0])) if hits else None,
                 got=got, expected="a unique rule", lattice_tuples=len(hits))
        if k["tuple"] in adopted:
            findings.append(f)
        elif hits:
            proposed_present.append(f)
            print(f"PROPOSED-KNOWN: property=C04 flag={k['tuple']} {k['kind']} ({len(hits)} lattice tuples; public call raised {got[0] if got else None}) -- listed in harness/c04_proposed_known.txt only", file=sys.stderr)
    extra["proposed_known_present"] = [f["flag"] for f in proposed_present]
    extra["known_entries"] = len(T["known"])
    for (ct, kind), hits in list(unknown.items())[:10]:
        fn, req, opt, da, _ = hits[0]
        got = public_call(T, fn, req, opt)
        lookup = got[0] in ("AmbiguousLookupError", "NotFoundLookupError")
        mismatches.append(dict(oracle_fail=lookup, what=f"{kind}: no unique rule for {ct} and the tuple is not in the committed exception list",
                               case=dict(fn=fn, req=list(req), opt=[list(o) for o in opt], call=LT.form_str(fn, req, opt, opt_names(fn))),
                               dispatched=da, expected="a unique rule", got=got, lattice_tuples=len(hits)))
    extra["nonunique_tuples"] = len(nonunique)
    extra["nonunique_class_tuples_outside_list"] = len(unknown)

    # 4. second level: the rules' own calls (hand-written call graph, closed in Coq) against observed nested dispatches
    try:
        cg = CG.run(ctx, T, full)
        mismatches += cg["mismatches"]
        extra.update(cg["extra"])
        ncalls += cg["evaluations"]
    except Exception:
        mismatches.append(dict(oracle_fail=False, what="call-graph check crashed", harness_error=traceback.format_exc()[-2000:]))

    # 5. execution stream: argument VALUES at and beyond their bounds, no lookup failure at any depth
    try:
        import c04_exec
        ex = c04_exec.run(ctx, T)
        mismatches += ex["mismatches"]
        extra.update(ex["extra"])
        ncalls += ex["evaluations"]
    except Exception:
        mismatches.append(dict(oracle_fail=False, what="execution stream crashed", harness_error=traceback.format_exc()[-2000:]))

    # coverage numbers
    nontrivial = 0
    hist = {}
    for (fn, da), v in seen_disp.items():
        d = T["funcs"][fn]
        objs = tuple(T["reps"][n].obj for n in da)
        m = sum(1 for r in d["rules"] if r["sig"].match(objs))
        if m >= 2:
            nontrivial += 1
        hist[fn] = hist.get(fn, 0) + 1
    for job in jobs[:: max(1, len(jobs) // 5)][:5]:
        req, opt = job["calls"][len(job["calls"]) // 2]
        samples.append(dict(call=LT.form_str(job["fn"], req, opt, opt_names(job["fn"])), live_code=job["expected"][len(job["calls"]) // 2]))
    extra.update(dict(lattice=tag, functions=len(T["funcs"]), reps=len(T["rep_names"]), type_hints=len(T["types"]),
                      signatures=sum(len(d["rules"]) for d in T["funcs"].values()), shards=len(jobs),
                      distinct_dispatched_tuples=len(seen_disp), per_function=hist,
                      modules_imported=len(T["imported"]), modules_failed=T["failed"]))
    return dict(evaluations=ncalls, distinct_nontrivial=nontrivial,
                rule="distinct dispatched (function, abstract argument tuple) with at least two applicable signatures",
                samples=samples, mismatches=mismatches, findings=findings, extra=extra)


def replay(ctx, payload):
    """re-run the public call of a replay file"""
    T = TR.build_table(0)
    case = payload.get("case") or {}
    if isinstance(case, dict) and "fn" in case:
        got = public_call(T, case["fn"], case["req"], [tuple(o) for o in case["opt"]])
        print(f"replay {case.get('call')}: raised {got[0]} {got[1][:200]}")
        return 1 if got[0] in ("AmbiguousLookupError", "NotFoundLookupError") else 0
    if isinstance(case, str):
        # execution stream: rebuild the call from its text with the seed of the replay file
        import numpy as np
        import c04_exec
        import c04_trace as TC
        c2 = core.Ctx("C04", ctx.tier, int(payload.get("seed", 0)))
        ops = c04_exec.operators(np.random.default_rng(c2.seed + 404))
        for text, f in c04_exec.call_list(c2, ops):
            if text == case:
                log, e, msg = TC.run_traced(f, [], {}, 10.0)
                bad = [r for r in log if r.err in ("AmbiguousLookupError", "NotFoundLookupError")]
                print(f"replay {case}: raised {e} {msg[:200]}; lookup failures at depth {[ (r.fn, r.depth, r.err) for r in bad]}")
                return 1 if bad or e in ("AmbiguousLookupError", "NotFoundLookupError") else 0
    print("replay: no executable case in this file (broken theorem / correspondence); run ./check C04")
    return 1
