#!/bin/bash
# usage: apply_branch.sh <branch>  -- cherry-pick the commits of <branch> that are not on /repo main, one by one, running the baseline suite after each
cd /repo
base=$(git merge-base main $1)
for c in $(git log --reverse --format=%H $base..$1); do
  if git log --format=%s main | grep -qxF "$(git log -1 --format=%s $c)"; then continue; fi
  git cherry-pick $c >/dev/null 2>&1 || { echo "CHERRY-PICK FAILED $c $(git log -1 --format=%s $c | cut -c1-80)"; git cherry-pick --abort; exit 1; }
  /venv/bin/python -m pytest -q -p no:cacheprovider --timeout=900 --continue-on-collection-errors -rA 2>/dev/null | grep "^PASSED" | sort > /tmp/seed/_fix_passed.txt
  n=$(wc -l < /tmp/seed/_fix_passed.txt)
  if diff -q /tmp/seed/_base_passed.txt /tmp/seed/_fix_passed.txt >/dev/null; then echo "OK $(git log -1 --format='%h %s' | cut -c1-120) [$n passed]"; else echo "TESTS DIFFER after $(git log -1 --format='%h %s') [$n passed]"; git reset -q --hard HEAD~1; exit 1; fi
done
