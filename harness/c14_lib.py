"""C14 helpers: case generator, implementation runner, Coq term rendering, independent numpy oracle.
The oracle uses plain numpy on dense matrices only; it shares no code with cola nor with the Coq model."""
import math
import numpy as np
import shim  # noqa: F401  (numpy backend shim; puts the repo under test on sys.path)
import cola
from cola import ops


# ----------------------------------------------------------------------------------------------- rendering
def hexf(x):
    x = float(x)
    if math.isnan(x):
        return "nan"
    if math.isinf(x):
        return "infinity" if x > 0 else "neg_infinity"
    return "(" + x.hex() + ")"


def coq_c(z):
    z = complex(z)
    return f"({hexf(z.real)},{hexf(z.imag)})"


def coq_vec(v):
    return "[" + ";".join(coq_c(z) for z in np.asarray(v).ravel()) + "]"


def coq_mat(M):
    return "[" + ";".join(coq_vec(r) for r in np.asarray(M)) + "]"


def enc(a):
    """numpy array -> JSON-able nested list of [re, im]"""
    a = np.asarray(a, dtype=complex)
    if a.ndim == 1:
        return [[float(z.real), float(z.imag)] for z in a]
    return [enc(r) for r in a]


def dec(l):
    a = np.array(l, dtype=float)
    if a.size == 0:
        return np.zeros(a.shape[:-1] if a.ndim > 1 else (0,), dtype=complex)
    return a[..., 0] + 1j * a[..., 1]


# ----------------------------------------------------------------------------------------------- generator
KINDS = ["dense", "dense", "dense", "psd", "sum", "prod", "diag", "scaled", "kron", "tridiag", "matmat"]
TOLS = [1e-7, 1e-7, 1e-7, 1e-6, 1e-6, 1e-3, 1e-10, 0.3, 1e-12, 0.0]


def rand_unitary(g, n, cplx):
    M = g.normal(size=(n, n)) + (1j * g.normal(size=(n, n)) if cplx else 0)
    Q, R = np.linalg.qr(M)
    return Q


def herm(M):
    return (M + M.conj().T) / 2


def spectrum(g, n, style):
    if style == "definite":
        return np.sort(g.uniform(0.5, 4.0, n))
    if style == "indefinite":
        return np.sort(g.uniform(-3.0, 3.0, n))
    if style == "repeated":           # few distinct values, well separated
        d = int(g.integers(1, max(2, n // 2 + 1)))
        vals = np.arange(1, d + 1) * g.uniform(0.7, 1.3) * g.choice([-1, 1])
        lam = np.concatenate([vals, g.choice(vals, n - d)]) if n > d else vals[:n]
        return np.sort(lam)
    if style == "clustered":          # tight clusters (relative width 1e-3 .. 1e-6) around a few centres
        d = int(g.integers(1, max(2, n // 2 + 1)))
        cen = np.arange(1, d + 1) * 1.0
        w = 10.0 ** (-g.integers(3, 7))
        return np.sort(g.choice(cen, n) + w * g.uniform(-1, 1, n))
    raise ValueError(style)


def gen_case(pyrng, present, nmax=12, force=None):
    """one case as a JSON-able dict.  `present` = set of defect flags the tree exhibits (regions to avoid)."""
    g = np.random.default_rng(pyrng.getrandbits(64))
    force = force or {}
    cplx = bool(g.random() < 0.4)
    kind = force.get("kind") or str(g.choice(KINDS))
    n = int(force.get("n") or g.integers(1, nmax + 1))
    style = str(g.choice(["gauss", "gauss", "definite", "indefinite", "repeated", "clustered"]))
    if kind == "psd":
        style = "definite"
    c = dict(kind=kind, cplx=cplx, style=style)
    # ---- the Hermitian matrix and the operator's constructor data
    if kind == "kron":
        n1 = int(g.integers(1, 4)); n2 = int(g.integers(1, max(2, nmax // n1 + 1)))
        S1 = herm(g.normal(size=(n1, n1)) + (1j * g.normal(size=(n1, n1)) if cplx else 0))
        S2 = herm(g.normal(size=(n2, n2)) + (1j * g.normal(size=(n2, n2)) if cplx else 0))
        c["parts"] = [enc(S1), enc(S2)]
        n = n1 * n2
        S = np.kron(S1, S2)
        lam, U = np.linalg.eigh(S)
    elif kind == "diag":
        c["cplx"] = cplx = False
        lam = spectrum(g, n, style if style != "gauss" else "indefinite")
        g.shuffle(lam)
        c["parts"] = [enc(lam)]
        S = np.diag(lam)
        U = np.eye(n)
    elif kind == "tridiag":
        c["cplx"] = cplx = False
        be = g.normal(size=n); al = g.normal(size=max(n - 1, 0))
        c["parts"] = [enc(al), enc(be)]
        S = np.diag(be) + (np.diag(al, 1) + np.diag(al, -1) if n > 1 else 0)
        lam, U = np.linalg.eigh(S)
    elif kind == "prod":
        M = g.normal(size=(n, n)) + (1j * g.normal(size=(n, n)) if cplx else 0)
        c["parts"] = [enc(M)]
        S = M.conj().T @ M
        lam, U = np.linalg.eigh(S)
    else:
        if style == "gauss":
            S = herm(g.normal(size=(n, n)) + (1j * g.normal(size=(n, n)) if cplx else 0))
        else:
            lam0 = spectrum(g, n, style)
            U0 = rand_unitary(g, n, cplx)
            S = herm((U0 * lam0) @ U0.conj().T)
        if kind == "sum":
            S1 = herm(g.normal(size=(n, n)) + (1j * g.normal(size=(n, n)) if cplx else 0))
            S2 = S - S1
            c["parts"] = [enc(S1), enc(S2)]
            S = S1 + S2
        elif kind == "scaled":
            sc = float(g.choice([-2.0, 0.5, 3.0]))
            c["parts"] = [enc(S), sc]
            S = sc * S
        else:
            c["parts"] = [enc(S)]
        lam, U = np.linalg.eigh(S)
    if not cplx:
        S = S.real
    c["n"] = n
    # ---- start vectors
    batch = 0 if g.random() < 0.7 else int(g.integers(1, 4))      # 0 = 1-D start vector
    nb = max(batch, 1)
    distinct = len(np.unique(np.round(lam / max(1e-300, np.abs(lam).max()), 6)))
    r = g.random()
    if r < 0.55:
        start = "random"
    elif r < 0.80:
        start = "few"            # sum of few eigenvectors: early termination
    elif r < 0.90:
        start = "exact_eig"      # exact eigenvector with exactly-zero residual (diag kind) / eigenvector otherwise
    else:
        start = "scaled"
    start = force.get("start", start)
    vs = []
    grades = []
    for b in range(nb):
        if start == "few" and n >= 3:
            k = int(g.integers(2, min(n, 4) + 1)) if b == 0 or "lanczos_batch_shared_stop" not in present else len(idx)
            idx = g.choice(n, size=k, replace=False)
            coef = g.uniform(0.5, 2.0, k) * g.choice([-1, 1], k)
            v = U[:, idx] @ coef
            grades.append(len(np.unique(np.round(lam[idx] / max(1e-300, np.abs(lam).max()), 6))))
        elif start == "exact_eig":
            j = int(g.integers(0, n))
            v = U[:, j] * float(g.choice([1.0, -2.0, 0.5]))
            grades.append(1)
            c["lam_ratio"] = min(c.get("lam_ratio", 1.0), float(abs(lam[j]) / max(1e-300, np.abs(lam).max())))
        else:
            v = g.normal(size=n) + (1j * g.normal(size=n) if cplx else 0)
            if start == "scaled":
                v = v * float(g.choice([1e3, 1e-3, 7.0, 1e-30, 1e-20, 1e-12, 1e-11, 1e-9, 1e-6, 1e6, 1e12, 1e20, 1e30, 1e-150, 1e-155, 1e-160]))      # start-vector norms from 1e-30 to 1e30, and near the underflow of the squared norm
            grades.append(distinct)
        vs.append(v if cplx else np.real(v))
    c["start"] = start
    c["batch"] = batch
    c["grades"] = grades
    V = np.stack(vs, 1)
    c["v"] = enc(V.T)            # list of start vectors
    mi_choices = [1, 2, max(1, n - 1), n, n + 1, n + 3, int(g.integers(1, n + 4)), int(g.integers(1, n + 4))]
    c["max_iters"] = int(force.get("max_iters") or g.choice(mi_choices))
    c["tol"] = float(force.get("tol", g.choice(TOLS)))
    c["entry"] = str(g.choice(["lanczos", "lanczos", "Lanczos()", "lanczos_eigs"])) if batch == 0 else "lanczos"
    return c


def gen_mixed_batch(pyrng, nmax=10):
    """a batch of start vectors for one operator in which exactly one element lies in a low-dimensional invariant subspace
    (early exhaustion) and the others are generic, in either order, with max_iters below n: the per-element factorisation must
    not depend on the rest of the batch"""
    g = np.random.default_rng(pyrng.getrandbits(64))
    cplx = bool(g.random() < 0.4)
    n = int(g.integers(5, max(6, nmax + 1)))
    lam = np.sort(g.uniform(0.5, 1.0, n)) + np.arange(n)          # well separated spectrum
    if g.random() < 0.5:
        lam = lam - n / 2.0
    U = rand_unitary(g, n, cplx)
    S = herm((U * lam) @ U.conj().T)
    if not cplx:
        S = S.real
    r = int(g.integers(2, n - 2))
    nb = int(g.integers(2, 4))
    pos = int(g.integers(0, nb))
    vs, grades = [], []
    for b in range(nb):
        if b == pos:
            idx = g.choice(n, size=r, replace=False)
            v = U[:, idx] @ (g.uniform(0.5, 2.0, r) * g.choice([-1, 1], r)); grades.append(r)
        else:
            v = g.normal(size=n) + (1j * g.normal(size=n) if cplx else 0); grades.append(n)
        vs.append(v if cplx else np.real(v))
    return dict(kind="dense", cplx=cplx, style="separated", parts=[enc(S)], n=n, start="mixed", batch=nb, grades=grades,
                v=enc(np.stack(vs, 0)), max_iters=int(g.integers(r + 1, n)), tol=float(g.choice([1e-7, 1e-6, 1e-3])), entry="lanczos")


def default_probe(n, key=None):
    """the start vector lanczos / arnoldi draw when none is given, reproduced independently of cola: randn(n, key=PRNGKey(42)) or
    randn(n, key=key); the numpy backend's PRNGKey(x) is int(sha256(big-endian bytes of x)) mod (2^32 - 1) and randn(key) is
    numpy's legacy generator seeded with the key (cast to the operator's dtype: real values also for complex operators)"""
    import hashlib
    if key is None:
        x = 42
        key = int.from_bytes(hashlib.sha256(x.to_bytes((x.bit_length() + 7) // 8, "big")).digest(), "big") % (2 ** 32 - 1)
    return np.random.RandomState(int(key)).randn(n)


def gen_nostart(pyrng, present, nmax=10):
    """calls WITHOUT a start vector (default random probe; key given or not) on every operator kind, in particular Tridiagonal (negative,
    zero and complex Hermitian couplings), Diagonal and Identity annotated SelfAdjoint: the factorisation must be that of the default
    probe, which the harness reproduces independently (default_probe)"""
    g = np.random.default_rng(pyrng.getrandbits(64))
    kind = str(g.choice(["tridiag", "tridiag", "tridiagc", "diag", "identity", "dense", "psd", "sum", "scaled", "kron", "matmat"]))
    while True:
        c = gen_case(pyrng, present, nmax=nmax, force=dict(start="random", kind=("tridiag" if kind in ("tridiagc", "identity") else kind)))
        if c["batch"] == 0:
            break
    n = c["n"]
    if kind in ("tridiag", "tridiagc") and n > 1:
        al = dec(c["parts"][0]).real; be = dec(c["parts"][1]).real
        al = np.where(g.random(n - 1) < 0.25, 0.0, al)                       # some zero couplings
        if kind == "tridiagc":
            al = al + 1j * g.normal(size=n - 1); c["cplx"] = True; c["kind"] = "tridiagc"
        c["parts"] = [enc(al), enc(be)]
    elif kind == "identity":
        c.update(kind="identity", parts=[], cplx=False)
    c["key"] = None if g.random() < 0.5 else int(g.integers(1, 2 ** 31))
    v = default_probe(n, c["key"])
    c["v"] = enc((v + 0j)[None, :])
    c["cplx_start"] = False
    c["grades"] = [n if kind not in ("identity",) else 1]
    c["entry"] = "lanczos_nostart"
    c["start"] = "default_probe"
    c["tol"] = float(g.choice([1e-7, 1e-6, 1e-3]))
    return c


def gen_graded(pyrng):
    """symmetrically graded operators S = D M D, D = diag(1 .. 10^k), k = 1..4, M symmetric well conditioned; lanczos_eigs with
    max_iters >= n"""
    g = np.random.default_rng(pyrng.getrandbits(64))
    n = int(g.integers(3, 9)); k = float(g.integers(1, 5))
    B = g.standard_normal((n, n)); M = (B + B.T) / 2 + 3.0 * np.eye(n)
    D = np.logspace(0, k, n)
    S = D[:, None] * M * D[None, :]
    v = np.eye(n)[0] if g.random() < 0.6 else g.standard_normal(n)
    return dict(kind="dense", cplx=False, style="graded", parts=[enc(S)], n=n, n1=n, coupling=1.0, start="graded", batch=0, grades=[n],
                v=enc((v + 0j)[None, :]), max_iters=int(g.choice([n, n, n + 2])), tol=float(g.choice([1e-7, 1e-6, 1e-10])), entry="lanczos_eigs", family="graded")


def oracle_graded(c, obs):
    """lanczos_eigs on graded operators: values = eigenvalues of the T of lanczos() for the same arguments; with n columns, the spectrum
    of A relative to its largest eigenvalue"""
    if not obs.get("ok"):
        return ["raised " + obs.get("err", "")]
    bad = []
    S = np.asarray(dense_of(c), dtype=float); n = c["n"]
    w = dec(obs["eigs"]).real; T = dec(obs["T"][0])
    ref = np.linalg.eigvalsh(herm(T)); lam = np.linalg.eigvalsh(S); top = np.abs(lam).max()
    if len(w) != len(ref) or hausdorff(w, ref) > 1e-9 * top:
        bad.append(f"lanczos_eigs values are not the eigenvalues of the T of lanczos() for the same arguments (distance {hausdorff(w, ref):.3g})")
    if len(w) == n and np.abs(np.sort(w) - lam).max() > 1e-8 * top:
        bad.append(f"lanczos_eigs with max_iters >= n does not return the spectrum of the graded operator (error {np.abs(np.sort(w) - lam).max() / top:.3g} of the largest eigenvalue)")
    return bad


def gen_narrow_start(pyrng, nmax=10):
    """explicit start vectors of a NARROWER dtype than the operator (float32 / complex64 on float64 / complex128), and start norms
    near the underflow of the squared norm (float32 1e-19 .. 1e-22).  The buffer is in the promoted dtype: every basis column must
    be a unit vector to a few eps of THAT dtype, orthonormality / relation / T = Q^H A Q likewise; the direction of the first column
    is only determined to the precision of the start's dtype.  Oracle only (the model computes in binary64 throughout)."""
    g = np.random.default_rng(pyrng.getrandbits(64))
    while True:
        c = gen_case(pyrng, set(), nmax=nmax, force=dict(kind=str(g.choice(["dense", "psd"])), start="random", n=int(g.integers(2, nmax + 1))))
        if c["batch"] == 0 and not in_avoided_region(c, set()):
            break
    opc = c["cplx"]
    vc = bool(opc or g.random() < 0.4)
    dt = np.complex64 if vc else np.float32
    V = dec(c["v"])
    V = (V if opc else (V.real + (1j * g.normal(size=V.shape) if vc else 0)))
    V = V * float(g.choice([1.0, 1.0, 1.0, 1e-19, 1e-20, 1e-21, 1e-22]))
    V = V.astype(dt).astype(np.complex128)                                  # exactly what the implementation receives
    c.update(cplx=vc, op_cplx=opc, v_dtype=("complex64" if vc else "float32"), v=enc(V), dir_tol=1e-5, narrow=True,
             tol=float(g.choice([1e-7, 1e-6, 1e-3])), entry=str(g.choice(["lanczos", "Lanczos()", "lanczos_eigs"])))
    return c


def gen_mixed_dtype(pyrng, nmax=10):
    """the start vector's dtype is wider than the operator's: a complex start vector on a real symmetric operator, or a float64
    start vector on a float32 operator (entries exactly representable in float32).  The factorisation must be that of the start
    vector given (first column v/||v||), in the promoted dtype."""
    g = np.random.default_rng(pyrng.getrandbits(64))
    while True:
        c = gen_case(pyrng, set(), nmax=nmax, force=dict(kind=str(g.choice(["dense", "psd"])), start="random", n=int(g.integers(2, nmax + 1))))
        if not c["cplx"] and not in_avoided_region(c, set()):
            break
    V = dec(c["v"])
    if g.random() < 0.6:
        V = V.real + 1j * g.normal(size=V.shape)
        c.update(cplx=True, op_cplx=False, mixed="complex start / real operator")
    else:
        M = dec(c["parts"][0]).real.astype(np.float32).astype(np.float64)
        c["parts"] = [enc(M)]
        c.update(op_f32=True, mixed="float64 start / float32 operator")
    V = V * float(g.choice([1.0, 1.0, 1e-15, 1e-12, 1e-6, 1e6, 1e15]))
    c["v"] = enc(V)
    c["tol"] = float(g.choice([1e-7, 1e-6, 1e-3]))
    c["entry"] = str(g.choice(["lanczos", "Lanczos()", "lanczos_eigs"])) if c["batch"] == 0 else "lanczos"
    return c


def gen_exact_case(pyrng):
    """Hermitian inputs on which every quantity of the run up to the exhaustion of the Krylov space is exactly representable in
    binary64 (small integers / dyadic numbers, canonical or +-1/2-pattern start vectors, involutions, 2x2 blocks, 1x1): beta is
    EXACTLY 0.0 at exhaustion and the stopping comparison sits exactly on its boundary for tol in {0, beta_1/||A q_1||, 1};
    max_iters in {1, grade, grade+1, n-1, n, n+1, n+3}, n = 1"""
    g = np.random.default_rng(pyrng.getrandbits(64))
    fam = str(g.choice(["identity", "scaledI", "diag_e", "diag4", "involution", "block2", "block2c", "one"]))
    p2 = lambda: float(g.choice([1.0, -1.0, 2.0, -0.5, 4.0, 2.0 ** -40, -2.0 ** 40, 2.0 ** -100, 2.0 ** 100]))
    cplx = False
    n = int(g.integers(2, 9))
    c = dict(start="exact", family=fam, style="exact")
    if fam in ("identity", "scaledI"):
        n = int(g.choice([1, 2, 4, 5, 8]))
        k4 = 4 if (n >= 4 and g.random() < 0.5) else 1
        v = np.zeros(n); idx = g.choice(n, size=k4, replace=False); v[idx] = g.choice([-1.0, 1.0], k4) * abs(p2())
        if fam == "identity":
            c.update(kind="identity", parts=[])
        else:
            c.update(kind="scaled", parts=[enc(np.eye(n)), float(g.choice([2.0, -3.0, 0.5]))])
        grade = 1
    elif fam == "diag_e":
        d = g.integers(-4, 5, n).astype(float)
        v = np.zeros(n); v[int(g.integers(0, n))] = p2()
        c.update(kind="diag", parts=[enc(d)]); grade = 1
    elif fam == "diag4":
        n = int(g.integers(4, 9))
        m_, a_ = [(3.0, 4.0), (0.0, 2.0), (0.0, 1.0), (-3.0, 4.0), (1.0, 2.0)][int(g.integers(0, 5))]
        d = g.integers(-4, 5, n).astype(float)
        idx = g.choice(n, size=4, replace=False)
        d[idx] = [m_ + a_, m_ - a_, m_ + a_, m_ - a_]
        v = np.zeros(n); v[idx] = abs(p2())
        c.update(kind="diag", parts=[enc(d)]); grade = 2
    elif fam == "involution":
        perm = np.arange(n); pairs = g.permutation(n)
        for i in range(0, n - 1, 2):
            if g.random() < 0.7:
                a, b = pairs[i], pairs[i + 1]; perm[a], perm[b] = b, a
        j0 = int(g.integers(0, n))
        v = np.zeros(n); v[j0] = p2()
        sc = float(g.choice([1.0, 2.0, -0.5]))
        c.update(kind="dense", parts=[enc(sc * np.eye(n)[perm])]); grade = 1 if perm[j0] == j0 else 2
    elif fam in ("block2", "block2c"):
        cplx = fam == "block2c"
        m_, a_ = [(3.0, 4.0), (0.0, 2.0), (-3.0, 4.0), (1.0, 2.0)][int(g.integers(0, 4))]
        S = np.diag(g.integers(-4, 5, n).astype(float)).astype(complex)
        off = a_ * (1j if cplx else 1.0)
        S[0, 0] = S[1, 1] = m_; S[0, 1] = off; S[1, 0] = np.conj(off)
        v = np.zeros(n); v[0] = p2()
        c.update(kind="dense", parts=[enc(S)]); grade = 2
    else:
        n = 1
        v = np.array([p2()]); c.update(kind="dense", parts=[enc(np.array([[float(g.integers(-3, 4))]]))]); grade = 1
    tols = [0.0, 0.0, 0.0, 1e-300, 1e-7, 1.0, 0.8, 0.5]
    mis = [1, 2, max(1, grade - 1), grade, grade + 1, max(1, n - 1), n, n + 1, n + 3]
    batch = 0 if g.random() < 0.8 else 2
    V = np.stack([v, -2.0 * np.asarray(v)][:max(batch, 1)], 0)
    c.update(cplx=cplx, n=n, batch=batch, grades=[grade] * max(batch, 1), v=enc(V), max_iters=int(g.choice(mis)), tol=float(g.choice(tols)),
             entry=str(g.choice(["lanczos", "lanczos", "Lanczos()", "lanczos_eigs"])) if batch == 0 else "lanczos")
    return c


def hausdorff(a, b):
    a, b = np.asarray(a), np.asarray(b)
    if len(a) == 0 or len(b) == 0:
        return 0.0 if len(a) == len(b) else float("inf")
    d = np.abs(a[:, None] - b[None, :])
    return float(max(d.min(axis=1).max(), d.min(axis=0).max()))


def gen_weak_coupling(pyrng):
    """lanczos_eigs on two weakly coupled symmetric subsystems (coupling 1e-13..1e-3), start vector supported on the first block,
    max_iters >= n, tolerances 1e-14..1e-3: when the tolerance resolves the coupling the Krylov space grows through it and the
    Ritz values of the full run are the spectrum of A"""
    g = np.random.default_rng(pyrng.getrandbits(64))
    n1, n2 = int(g.integers(2, 6)), int(g.integers(2, 7)); n = n1 + n2
    eps = float(10.0 ** (-g.integers(3, 14))); tol = float(10.0 ** (-g.integers(3, 15)))
    B1 = g.standard_normal((n1, n1)); B2 = g.standard_normal((n2, n2)); Cc = eps * g.standard_normal((n2, n1))
    S = np.zeros((n, n)); S[:n1, :n1] = (B1 + B1.T) / 2 + 3.0 * np.eye(n1); S[n1:, n1:] = (B2 + B2.T) / 2 - 2.0 * np.eye(n2)
    S[n1:, :n1] = Cc; S[:n1, n1:] = Cc.T
    v = np.zeros(n); v[:n1] = g.standard_normal(n1)
    return dict(kind="dense", cplx=False, style="weak_coupling", parts=[enc(S)], n=n, n1=n1, coupling=eps, start="block1", batch=0, grades=[n],
                v=enc(v[None, :]), max_iters=int(g.choice([n, n, n + 3])), tol=tol, entry="lanczos_eigs", family="weak_coupling")


def oracle_eigs(c, obs):
    """clauses about lanczos_eigs on the weak-coupling stream: (i) its values are the eigenvalues of the T that lanczos returns for
    the same arguments; (ii) when the tolerance resolves the coupling (the remainder at the block boundary, computed here
    independently, is >= 100 tol ||A q_1|| and well above rounding noise) n values come back and they are the spectrum of A"""
    if not obs.get("ok"):
        return ["raised " + obs.get("err", "")]
    bad = []
    S = np.asarray(dense_of(c), dtype=float)
    n, n1 = c["n"], c["n1"]
    scale = np.abs(S).max()
    w = dec(obs["eigs"]).real
    T = dec(obs["T"][0])
    ref = np.linalg.eigvalsh(herm(T)) if T.size else np.zeros(0)
    if len(w) != len(ref) or hausdorff(w, ref) > 1e-8 * scale:
        bad.append(f"lanczos_eigs(tol={c['tol']}) values are not the eigenvalues of the T returned by lanczos(tol={c['tol']}) "
                   f"({len(w)} vs {len(ref)} values, distance {hausdorff(w, ref):.3g})")
    v = dec(c["v"])[0].real
    U = np.zeros((n, 0)); q = v / np.linalg.norm(v); r = None
    aq1 = np.linalg.norm(S @ q)
    for j in range(n1):
        U = np.concatenate([U, q[:, None]], 1)
        x = S @ q
        for _ in range(2):
            x = x - U @ (U.T @ x)
        r = np.linalg.norm(x)
        if j < n1 - 1:
            if r < 1e-6 * scale:
                return bad
            q = x / r
    noise = 1.1e-16 * scale * n
    acc = max(1e-6, 1e3 * noise / r) if r else None      # normalising a remainder of norm r amplifies rounding noise by noise/r
    if r is not None and r > 100.0 * c["tol"] * aq1 and r > 1e3 * noise and r >= 1e-4 * aq1 and acc <= 3e-2:   # coupling well above rounding level (see c15_lib)
        lam = np.linalg.eigvalsh(S)
        if len(w) != n:
            bad.append(f"lanczos_eigs with max_iters >= n returned {len(w)} Ritz values for an operator of size {n} although the tolerance "
                       f"resolves the coupling (remainder {r:.3g} = {r / (c['tol'] * aq1):.3g} x tol*||A q_1||)")
        elif hausdorff(w, lam) > acc * scale:
            bad.append(f"lanczos_eigs with max_iters >= n and tol={c['tol']} does not return the spectrum of A (distance {hausdorff(w, lam):.3g})")
    return bad


def gen_constant_recurrence(pyrng, n=None):
    """exact inputs whose Lanczos recurrence has CONSTANT coefficients: symmetric tridiagonal Toeplitz matrices (path-graph adjacency,
    1-D Laplacian, ...) started from e_1 or e_n: alpha_j = a, beta_j = |b| bit for bit at every step, the tracked relative error
    beta_j/beta_1 is exactly 1 throughout, and the Krylov space is only exhausted at step n.  Sizes and step counts straddle
    10, 50 and 100 (n in 5..16, and 52 / 101 when asked)."""
    g = np.random.default_rng(pyrng.getrandbits(64))
    n = int(n or g.integers(5, 17))
    a = float(g.choice([0.0, 2.0, -1.0, 0.5])); b = float(g.choice([1.0, -1.0, 2.0, 0.5]))
    v = np.zeros(n); v[0 if g.random() < 0.7 else n - 1] = float(g.choice([1.0, -1.0, 2.0, -0.5]))
    c = dict(start="exact", family="toeplitz", style="exact", cplx=False, n=n, batch=0, grades=[n], v=enc(v[None, :]))
    if g.random() < 0.5:
        c.update(kind="tridiag", parts=[enc(np.full(n - 1, b)), enc(np.full(n, a))])
    else:
        c.update(kind="dense", parts=[enc(a * np.eye(n) + b * (np.eye(n, k=1) + np.eye(n, k=-1)))])
    c["max_iters"] = int(g.choice([n, n, n + 1, n - 1, 5, 8, max(1, n // 2)]))
    c["tol"] = float(g.choice([0.0, 1e-7, 1e-7, 1e-12, 0.25]))
    c["entry"] = str(g.choice(["lanczos", "lanczos", "Lanczos()", "lanczos_eigs"]))
    return c


def coq_elem_cases(c, obs, alias_flag_present, rfix=False):
    """one single-start Coq case per batch element (element b of the batched call against the run on v_b alone)"""
    S = dense_of(c)
    V = dec(c["v"])
    alias = "true" if (obs.get("alias") and alias_flag_present) else "false"
    out = []
    for b in range(len(obs["Q"])):
        Q = dec(obs["Q"][b]) if obs["Q"][b] else np.zeros((0, c["n"]))
        el = "(" + coq_mat(Q) + "," + coq_vec(dec(obs["off"][b]) if obs["off"][b] else []) + "," + coq_vec(dec(obs["diag"][b])) + ")"
        out.append(f"mk_lcase {c['n']} {coq_mat(S)} {alias} {'true' if rfix else 'false'} {coq_mat(V[b:b + 1])} {c['max_iters']} {hexf(c['tol'])} {obs['k']} [{el}]")
    return out


def in_avoided_region(c, present):
    """regions spoiled by the defects the tree exhibits (the Coq comparison never enters the first two:
    there the trajectory is normalised rounding noise)"""
    m = min(c["max_iters"], c["n"])
    g1 = [gr for gr in c["grades"] if gr <= 1]
    exact0 = c["kind"] == "diag" and c["start"] == "exact_eig"
    if g1 and m >= 2 and not exact0:
        if "lanczos_reltol_first_step" in present:
            return "grade1"                                 # lanczos_reltol_first_step
        if c.get("lam_ratio", 1.0) < 1e-3:
            return "null_vector_start"                      # A v ~ 0: the repaired test has no scale to compare with either (||A q_1|| ~ 0)
        if c["tol"] < 1e-9:
            return "tol_below_noise"
    if len(set(min(gr, m) for gr in c["grades"])) > 1 or (c["batch"] > 1 and c["start"] == "few" and c.get("style") == "clustered"):
        return "batch_unequal"                              # lanczos_batch_shared_stop (clustered: the step at which an element
                                                            # falls below tol*beta_1 is not predictable from the construction)
    if c["tol"] < 1e-9 and min(c["grades"]) < m and not exact0:
        return "tol_below_noise"                            # the caller asked to iterate through rounding noise
    return None


def dense_of(c):
    """the represented Hermitian matrix, by plain numpy"""
    k, p = c["kind"], c["parts"]
    if k == "kron":
        S = np.kron(dec(p[0]), dec(p[1]))
    elif k == "diag":
        S = np.diag(dec(p[0]))
    elif k == "tridiag":
        al, be = dec(p[0]), dec(p[1])
        S = np.diag(be) + (np.diag(al, 1) + np.diag(al, -1) if len(be) > 1 else 0)
    elif k == "tridiagc":                  # complex Hermitian: lower band al, upper band conj(al)
        al, be = dec(p[0]), dec(p[1])
        S = np.diag(be) + (np.diag(np.conj(al), 1) + np.diag(al, -1) if len(be) > 1 else 0)
    elif k == "prod":
        M = dec(p[0]); S = M.conj().T @ M
    elif k == "sum":
        S = dec(p[0]) + dec(p[1])
    elif k == "scaled":
        S = p[1] * dec(p[0])
    elif k == "identity":
        S = np.eye(c["n"], dtype=complex)
    else:
        S = dec(p[0])
    return S if c.get("op_cplx", c["cplx"]) else S.real


def build_op(c):
    k, p = c["kind"], c["parts"]
    opc = c.get("op_cplx", c["cplx"])          # the operator's dtype may differ from the start vector's (c["cplx"])
    dt = np.complex128 if opc else (np.float32 if c.get("op_f32") else np.float64)
    cast = (lambda a: np.ascontiguousarray(dec(a).astype(dt))) if opc else (lambda a: np.ascontiguousarray(dec(a).real.astype(dt)))
    if k == "kron":
        A = ops.Kronecker(ops.Dense(cast(p[0])), ops.Dense(cast(p[1])))
    elif k == "diag":
        A = ops.Diagonal(cast(p[0]))
    elif k == "tridiag":
        A = ops.Tridiagonal(cast(p[0]), cast(p[1]), cast(p[0]))
    elif k == "tridiagc":
        A = ops.Tridiagonal(cast(p[0]), cast(p[1]), np.conj(cast(p[0])))
    elif k == "prod":
        M = ops.Dense(cast(p[0])); A = M.H @ M
    elif k == "sum":
        A = ops.Dense(cast(p[0])) + ops.Dense(cast(p[1]))
    elif k == "scaled":
        A = p[1] * ops.Dense(cast(p[0]))
    elif k == "identity":
        A = ops.Identity((c["n"], c["n"]), dt)
    elif k == "matmat":
        S = cast(p[0])
        A = ops.LinearOperator(dt, (c["n"], c["n"]), matmat=lambda X, S=S: S @ X)
    elif k == "psd":
        return cola.PSD(ops.Dense(cast(p[0])))
    else:
        A = ops.Dense(cast(p[0]))
    return cola.SelfAdjoint(A)


def start_of(c):
    V = dec(c["v"])
    V = V if c["cplx"] else V.real
    if c.get("v_dtype"):
        V = V.astype(getattr(np, c["v_dtype"]))
    return V[0].copy() if c["batch"] == 0 else np.ascontiguousarray(V.T)


# ----------------------------------------------------------------------------------------------- implementation
def run_impl(c):
    from cola.linalg.decompositions.lanczos import lanczos, lanczos_eigs
    from cola.linalg.decompositions.decompositions import Lanczos
    obs = dict(ok=True)
    try:
        A = build_op(c)
        v = start_of(c)
        x = np.ones((c["n"], 1), dtype=A.dtype)
        obs["alias"] = bool(np.shares_memory(A @ x, x))
        if c["entry"] == "lanczos_nostart":
            kw = {} if c.get("key") is None else dict(key=c["key"])
            Q, T, info = lanczos(A, max_iters=c["max_iters"], tol=c["tol"], **kw)
        elif c["entry"] == "Lanczos()":
            Q, T, info = Lanczos(start_vector=v, max_iters=c["max_iters"], tol=c["tol"])(A)
        else:
            Q, T, info = lanczos(A, v, max_iters=c["max_iters"], tol=c["tol"])
        if c["batch"] == 0:
            Qd = np.asarray(Q.to_dense()); Td = np.asarray(T.to_dense())
            obs["Q"] = [enc(Qd.T)]; obs["T"] = [enc(Td)]
            obs["off"] = [enc(np.asarray(T.alpha)[:, 0])]; obs["diag"] = [enc(np.asarray(T.beta)[:, 0])]
            obs["shapes"] = [list(Qd.shape), list(Td.shape)]
        else:
            QA = np.asarray(Q.A); al = np.asarray(T.alpha); be = np.asarray(T.beta)
            obs["Q"] = [enc(QA[b].T) for b in range(QA.shape[0])]
            obs["off"] = [enc(al[b][:, 0]) for b in range(al.shape[0])]
            obs["diag"] = [enc(be[b][:, 0]) for b in range(be.shape[0])]
            obs["T"] = []
            for b in range(be.shape[0]):
                o, d = al[b][:, 0], be[b][:, 0]
                obs["T"].append(enc(np.diag(d) + (np.diag(o, 1) + np.diag(o, -1) if len(d) > 1 else 0)))
            obs["shapes"] = [list(QA.shape), list(be.shape)]
        obs["k"] = len(obs["diag"][0])
        obs["qcols"] = len(obs["Q"][0])
        if c["entry"] == "lanczos_eigs":
            w, Vv, _ = lanczos_eigs(A, v, max_iters=c["max_iters"], tol=c["tol"])
            obs["eigs"] = enc(np.asarray(w)); obs["eigvecs"] = enc(np.asarray(Vv.to_dense()).T)
    except Exception as e:  # an exception on an input the model accepts is a mismatch
        obs = dict(ok=False, err=f"{type(e).__name__}: {e}")
    return obs


def coq_case(c, obs, alias_flag_present, rfix=False):
    """rfix: compare with the model's repaired stopping test (probe says lanczos_reltol_first_step is gone)"""
    S = dense_of(c)
    V = dec(c["v"])
    alias = "true" if (obs.get("alias") and alias_flag_present) else "false"
    outs = []
    for b in range(len(obs["Q"])):
        Q = dec(obs["Q"][b]) if obs["Q"][b] else np.zeros((0, c["n"]))
        outs.append("(" + coq_mat(Q) + "," + coq_vec(dec(obs["off"][b]) if obs["off"][b] else []) + "," + coq_vec(dec(obs["diag"][b])) + ")")
    return (f"mk_lcase {c['n']} {coq_mat(S)} {alias} {'true' if rfix else 'false'} {coq_mat(V)} {c['max_iters']} {hexf(c['tol'])} {obs['k']} [" + ";".join(outs) + "]")


HEADER = """From Coq Require Import List PrimFloat.
From Core Require Import C14_Model C14_Float.
Import ListNotations.
Open Scope float_scope.
"""


# ----------------------------------------------------------------------------------------------- oracle
def krylov_basis(S, v, jmax):
    """orthonormal nested basis of the Krylov spaces K_1 c K_2 c ... (Arnoldi with two re-orthogonalisation passes,
    written independently).  Returns (U, grade): U holds the basis vectors that are numerically well determined
    (every normalised remainder was >= 1e-3 of the scale of A); grade = dimension at which the space is exhausted
    (remainder at rounding level) or None when that is not reached / not decidable numerically."""
    n = len(v)
    scale = max(np.abs(S).max(), 1e-300)
    U = np.zeros((n, 0), dtype=complex)
    q = v.astype(complex) / np.linalg.norm(v)
    grade = None
    nws = []
    for j in range(jmax):
        U = np.concatenate([U, q[:, None]], 1)
        w = S @ q
        for _ in range(2):
            w = w - U @ (U.conj().T @ w)
        nw = np.linalg.norm(w)
        nws.append(float(nw))
        if nw <= 1e-11 * scale * math.sqrt(n):
            grade = j + 1
            break
        if nw < 1e-3 * scale:
            break
        q = w / nw
    krylov_basis.nws = nws          # remainder norms ||(I - P_j) A q_j|| of the steps taken (= the ideal beta_1, beta_2, ...)
    return U, grade


def oracle(c, obs, check_span=True):
    """failed clauses of C14 on the implementation's output, plain numpy"""
    if not obs.get("ok"):
        return ["raised " + obs.get("err", "")]
    bad = []
    S = np.asarray(dense_of(c), dtype=complex)
    n, m = c["n"], min(c["max_iters"], c["n"])
    scale = max(np.abs(S).max(), 1e-300)
    V = dec(c["v"])
    for b in range(len(obs["Q"])):
        tag = f"[b{b}] " if c["batch"] else ""
        Q = dec(obs["Q"][b]).T if obs["Q"][b] else np.zeros((n, 0), dtype=complex)
        T = dec(obs["T"][b]) if obs["T"][b] else np.zeros((0, 0), dtype=complex)
        v = V[b]
        v = v / np.abs(v).max()             # only the direction of the start vector matters; avoids under/overflow of squared norms here
        k = Q.shape[1]
        if not (np.all(np.isfinite(Q)) and np.all(np.isfinite(T))):
            bad.append(tag + "non-finite output"); continue
        if Q.shape[0] != n or T.shape != (k, k):
            bad.append(tag + f"shapes Q{Q.shape} T{T.shape}"); continue
        if not (1 <= k <= m):
            bad.append(tag + f"columns {k} not in 1..min(max_iters,n)={m}")
        if k == 0:
            continue
        if np.abs(Q.conj().T @ Q - np.eye(k)).max() > 1e-8:
            bad.append(tag + "Q not orthonormal")
        vmax = np.abs(v).max()
        vdir = (v / vmax) / np.linalg.norm(v / vmax)                       # scaled norm: no under/overflow of the squares
        if np.abs(Q[:, 0] - vdir).max() > c.get("dir_tol", 1e-10):
            bad.append(tag + "first column != v/||v||")
        # every returned column is a unit vector to the precision of the (promoted) buffer dtype, whatever the dtype / norm of the start
        if np.abs(np.linalg.norm(Q, axis=0) - 1).max() > 1e-12:
            bad.append(tag + f"columns are not unit vectors in the precision of the basis' dtype (max | ||q_j|| - 1 | = {np.abs(np.linalg.norm(Q, axis=0) - 1).max():.3g})")
        if np.abs(T.imag).max() > 1e-10 * scale:
            bad.append(tag + "T not real")
        if np.abs(T - T.T).max() > 0 or np.abs(np.triu(T, 2)).max() > 0:
            bad.append(tag + "T not symmetric tridiagonal")
        if k > 1 and np.diag(T, 1).real.min() < 0:
            bad.append(tag + "negative off-diagonal")
        if np.abs(Q.conj().T @ S @ Q - T).max() > 1e-8 * scale:
            bad.append(tag + "T != Q^H A Q")
        R = S @ Q - Q @ T
        if k > 1 and np.abs(R[:, :-1]).max() > 1e-8 * scale:
            bad.append(tag + "A Q - Q T not confined to the last column")
        U, grade = krylov_basis(S, v, min(n, k + 1))
        nws = krylov_basis.nws
        if grade is not None and k > grade:
            bad.append(tag + f"{k} columns although the Krylov space is exhausted at dimension {grade}")
        # the iteration may stop before the cap only when the remainder has fallen to tol*beta_1 (or to zero at the first step)
        # (tol is relative to the size of the first Krylov vector: beta_1 in the pinned code, ||A q_1|| in the repaired one; either is accepted)
        aq1 = float(np.linalg.norm(S @ v) / np.linalg.norm(v))
        if 1 <= k < m and len(nws) >= k and nws[k - 1] > 2.0 * c["tol"] * max(nws[0], aq1) + 1e-6 * scale:
            bad.append(tag + f"only {k} of min(max_iters,n)={m} columns although the remainder after step {k} is {nws[k - 1]:.3g} "
                             f"(beta_1={nws[0]:.3g}, tol={c['tol']}): truncated factorisation")
        if check_span:
            for j in range(1, min(k, U.shape[1]) + 1):
                Uj = U[:, :j]
                res = Q[:, :j] - Uj @ (Uj.conj().T @ Q[:, :j])
                if np.abs(res).max() > 1e-6:
                    bad.append(tag + f"first {j} columns do not span the Krylov space K_{j}")
                    break
        if grade is not None and k == grade:
            lamA = np.linalg.eigvalsh(S)
            th = np.linalg.eigvalsh(herm(T))
            if max(np.abs(lamA - t).min() for t in th) > 1e-7 * scale:
                bad.append(tag + "early exit but eigenvalues of T are not eigenvalues of A")
    if "eigs" in obs and not bad:
        w = dec(obs["eigs"]); Y = dec(obs["eigvecs"]).T
        T = dec(obs["T"][0]); Q = dec(obs["Q"][0]).T
        k = T.shape[0]
        if w.shape != (k,) or Y.shape != (n, k):
            bad.append("lanczos_eigs shapes")
        else:
            if np.any(np.diff(w.real) < 0):
                bad.append("lanczos_eigs not ascending")
            if np.abs(np.sort(w.real) - np.linalg.eigvalsh(herm(T))).max() > 1e-9 * scale or np.abs(w.imag).max() > 1e-9 * scale:
                bad.append("lanczos_eigs values are not the eigenvalues of T")
            if np.abs(Y.conj().T @ Y - np.eye(k)).max() > 1e-8:
                bad.append("Ritz vectors not orthonormal")
            # Ritz pairs: Y = Q S with T S = S diag(w)  <=>  Q^H Y diagonalises T
            Sm = Q.conj().T @ Y
            if np.abs(T @ Sm - Sm * w).max() > 1e-8 * scale or np.abs(Q @ Sm - Y).max() > 1e-8:
                bad.append("lanczos_eigs vectors are not Q times eigenvectors of T")
    return bad
