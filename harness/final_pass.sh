#!/bin/bash
# all 20 checks on /repo: quick seeds 0 and 1, then thorough (the evidence files left behind are those of the thorough tier)
cd /verif
for i in $(seq -w 1 20); do
  for s in 0 1; do
    out=$(VERIF_SEED=$s timeout 3000 ./check C$i 2>&1 | grep -v '^KNOWN' | tail -2); echo "$out" | grep VIOLATION >> run/final_pass.log; echo "$out" | tail -1 >> run/final_pass.log
  done
done
for i in $(seq -w 1 20); do
  out=$(timeout 7200 ./check C$i --tier thorough 2>&1 | grep -v '^KNOWN' | tail -2); echo "$out" | grep VIOLATION >> run/final_pass.log; echo "$out" | tail -1 >> run/final_pass.log
done
echo "final pass done" >> run/final_pass.log
