"""Translator for C04/C19: reads /repo's LIVE plum registry and writes /verif/coq/C04_RuleTable.v
(DESIGN.md section 3.2).  Run by setup.sh and by every check before `make`.  Deterministic; rewrites the file only
when its content changes; fails closed (exit 2) on anything it does not understand.

Emitted: the type-hint universe, beartype's order `le_row`, the isinstance table `bear_row` on one representative
instance per abstract argument, for every function of the lattice its registrations (before and after plum's
default-argument expansion) with precedence, tabulated condition and registration index, the defaults bound by the
`dispatch.abstract` wrappers, the admissible argument sets (Appendix B), and the committed exception list parsed
from KNOWN_FINDINGS.txt (+ harness/c04_proposed_known.txt until those lines are adopted)."""
import os, sys, re, inspect, itertools, typing, types as pytypes, numbers
HERE = os.path.dirname(os.path.abspath(__file__))
if HERE not in sys.path:
    sys.path.insert(0, HERE)
VERIF = os.path.dirname(HERE)
import c04_build
OUT = c04_build.table_path()   # coq/C04_RuleTable.v for the default tree, a private directory for any other COLA_REPO
KNOWN_FILES = [os.path.join(VERIF, "KNOWN_FINDINGS.txt"), os.path.join(HERE, "c04_proposed_known.txt")]


class FailClosed(Exception):
    pass


def check_hint(t, where):
    """accepted type-hint forms; anything else stops the translator"""
    if t is typing.Any or t is typing.Callable or t is numbers.Number:
        return
    if isinstance(t, pytypes.UnionType) or typing.get_origin(t) is typing.Union:
        for a in typing.get_args(t):
            check_hint(a, where)
        return
    if isinstance(t, type):
        import c04_universe as U
        if U.is_parametrized(t):
            raise FailClosed(f"parametrized class hint {t!r} in {where}: the (class, annotations, square) abstraction does not determine isinstance")
        from plum.type import ResolvableType
        if isinstance(t, ResolvableType):
            raise FailClosed(f"unresolved promised/module type {t!r} in {where}")
        return
    raise FailClosed(f"type-hint form not understood: {t!r} ({type(t).__name__}) in {where}")


def hint_name(t):
    if t is typing.Any:
        return "Any"
    if t is typing.Callable:
        return "Callable"
    if isinstance(t, pytypes.UnionType) or typing.get_origin(t) is typing.Union:
        return "|".join(hint_name(a) for a in typing.get_args(t))
    return getattr(t, "__name__", repr(t))


def n_defaults(method):
    """number of signatures append_default_args derives beyond the full one"""
    from plum.signature import _inspect_signature
    sig = _inspect_signature(method)
    k = 0
    for name in reversed(list(sig.parameters)):
        p = sig.parameters[name]
        if p.kind in {p.VAR_KEYWORD, p.KEYWORD_ONLY}:
            continue
        if p.kind != p.VAR_POSITIONAL and p.default is inspect.Parameter.empty:
            break
        if p.kind == p.VAR_POSITIONAL:
            continue
        k += 1
    return k


def parse_known(class_ids):
    """known: property=C04 tuple=<fn>(<classes>) <Ambiguous|NotFound>   ('*' = any class)"""
    out = []
    for path in KNOWN_FILES:
        if not os.path.exists(path):
            continue
        for line in open(path):
            line = line.strip()
            m = re.match(r"known:\s+property=C04\s+(.*)", line)
            if not m:
                continue
            tm = re.search(r"tuple=(\w+)\(([^)]*)\)", m.group(1))
            if not tm:
                continue
            fn, cl = tm.group(1), [c.strip() for c in tm.group(2).split(",") if c.strip()]
            tup = f"{fn}({','.join(cl)})"
            km = re.search(r"\)\s+(Ambiguous|NotFound)\b", m.group(1)[tm.start():])
            kind = km.group(1) if km else "Ambiguous"
            if any(k["tuple"] == tup for k in out):
                continue
            ids = [None if c == "*" else class_ids.get(c, -1) for c in cl]
            text = re.sub(r"^.*?tuple=\S+\s*", "", m.group(1))
            out.append(dict(tuple=tup, fn=fn, classes=cl, ids=ids, kind=kind, source=os.path.basename(path), text=text))
    return out


def build_table(variant=0):
    """Everything the Coq table and the harness need, from the live registry."""
    import c04_universe as U
    imported, failed = U.load_all()
    from plum import dispatch, _is_bearable
    import beartype.door
    reps = U.build_reps(variant)
    rep_names = list(reps)
    rid = {n: i + 1 for i, n in enumerate(rep_names)}
    classes = []
    for r in reps.values():
        if r.cls not in classes:
            classes.append(r.cls)
    class_ids = {c: i for i, c in enumerate(classes)}
    op_all = [n for n, r in reps.items() if r.sort == "op"]
    op_base = [n for n in op_all if reps[n].ann == ""]

    types = []

    def tid(t):
        for i, u in enumerate(types):
            if u is t or u == t:
                return i
        types.append(t)
        return len(types) - 1

    funcs = {}
    for fn in U.LATTICE:
        if fn not in dispatch.functions:
            raise FailClosed(f"function `{fn}` of the lattice is not in the live registry")
        f = dispatch.functions[fn]
        methods = list(f.methods)  # resolves pending registrations
        raws, expanded, off = [], [], 0
        for ri, (method, signature, condition, precedence, to_remove) in enumerate(f._resolved):
            if to_remove:
                raise FailClosed(f"{fn}: a disabled (to_remove) registration is not modelled")
            if signature is not None:
                raise FailClosed(f"{fn}: dispatch_multi registration is not modelled")
            k = n_defaults(method)
            group = methods[off:off + k + 1]
            if len(group) != k + 1:
                raise FailClosed(f"{fn}: live method list shorter than the registrations imply")
            s0 = group[0]
            for s in group:
                if s.has_varargs:
                    raise FailClosed(f"{fn}: varargs signature {s} is not modelled")
                for t in s.types:
                    check_hint(t, f"{fn} {s}")
            raws.append(dict(types=[tid(t) for t in s0.types], prec=int(s0.precedence), cond=s0.condition, ndef=k,
                             line=getattr(getattr(method, "__code__", None), "co_firstlineno", 0),
                             module=getattr(method, "__module__", "?")))
            for s in group:
                expanded.append(dict(types=[tid(t) for t in s.types], prec=int(s.precedence), cond=s.condition, orig=ri, sig=s))
            off += k + 1
        if off != len(methods):
            raise FailClosed(f"{fn}: {len(methods)} live signatures but {off} derived from the registrations")
        funcs[fn] = dict(raw=raws, rules=expanded, function=f)

    nt = len(types)
    if nt > 120:
        raise FailClosed("too many type hints for the bit-mask encoding")
    TH = [beartype.door.TypeHint(t) for t in types]
    le = [[bool(TH[a] <= TH[b]) for b in range(nt)] for a in range(nt)]
    bear = {n: [bool(_is_bearable(reps[n].obj, t)) for t in types] for n in rep_names}

    # ---- conditions: value as a function of ONE argument position (fail closed otherwise) ----
    for fn, d in funcs.items():
        cache = {}
        for r in d["rules"]:
            c = r["cond"]
            if c is None:
                r["condtab"] = None
                continue
            key = (id(c), tuple(r["types"]))
            if key in cache:
                r["condtab"] = cache[key]
                continue
            cand = [[n for n in rep_names if bear[n][t]] for t in r["types"]]
            size = 1
            for cl in cand:
                size *= max(len(cl), 1)
            if size > 600000:
                raise FailClosed(f"{fn}: condition of {r['sig']} has too large a domain to tabulate ({size})")
            vals = {}
            for tup in itertools.product(*cand):
                try:
                    vals[tup] = bool(c(*[reps[n].obj for n in tup]))
                except Exception as e:
                    raise FailClosed(f"{fn}: condition of {r['sig']} raised {type(e).__name__} on {tup}")
            found = None
            for p in range(len(r["types"])):
                byp = {}
                ok = True
                for tup, v in vals.items():
                    if byp.setdefault(tup[p], v) != v:
                        ok = False
                        break
                if ok:
                    found = (p, sorted(rid[n] for n, v in byp.items() if v))
                    break
            if found is None:
                raise FailClosed(f"{fn}: condition of {r['sig']} depends on more than one argument")
            cache[key] = found
            r["condtab"] = found
        for q in d["raw"]:
            q["condtab"] = None
        for r in d["rules"]:
            q = d["raw"][r["orig"]]
            if r["condtab"] is not None and len(r["types"]) == len(q["types"]):
                q["condtab"] = r["condtab"]
        # the truncated copies share the lambda; tabulated on their own domain the table may differ in irrelevant
        # entries only (reps not bearable at that position never reach the condition) -> use the full signature's
        for r in d["rules"]:
            if r["condtab"] is not None:
                q = d["raw"][r["orig"]]
                if q["condtab"] is not None and q["condtab"][0] == r["condtab"][0]:
                    if set(r["condtab"][1]) - set(q["condtab"][1]) or set(q["condtab"][1]) - set(r["condtab"][1]):
                        # keep exactness: differing tables are both emitted; `expand` check will flag it
                        pass

    # ---- abstract wrappers: defaults they bind ----
    def default_rep(v):
        from cola.linalg.algorithm_base import Algorithm
        if isinstance(v, Algorithm):
            n = type(v).__name__
            if n in reps:
                return n
        if isinstance(v, bool):
            return None
        if isinstance(v, int):
            return "pyint0" if v == 0 else "pyint"
        if isinstance(v, str):
            return {"LM": "strLM", "SM": "strSM"}.get(v)
        return None

    for fn, d in funcs.items():
        f = d["function"]
        req, opt = U.LATTICE[fn]
        d["abstract"] = None
        if hasattr(f, "_abstract"):
            cv = inspect.getclosurevars(f._abstract).nonlocals
            sig = cv.get("sig")
            if sig is None:
                raise FailClosed(f"{fn}: cannot read the signature bound by dispatch.abstract")
            params = list(sig.parameters.values())
            if any(p.kind not in (p.POSITIONAL_OR_KEYWORD,) for p in params):
                raise FailClosed(f"{fn}: abstract signature with non-positional parameters")
            nreq = sum(1 for p in params if p.default is inspect.Parameter.empty)
            if len(params) == len(req) + len(opt) and nreq == len(req):
                defs = []
                for p, (oname, _) in zip(params[nreq:], opt):
                    if p.name != oname:
                        raise FailClosed(f"{fn}: optional parameter `{p.name}` (expected `{oname}`)")
                    dr = default_rep(p.default)
                    if dr is None:
                        raise FailClosed(f"{fn}: default {p.default!r} of `{p.name}` has no representative")
                    defs.append(dr)
                d["abstract"] = defs
            else:
                # an abstract declaration for other argument kinds sharing the name (preconditioners.sqrt): the
                # public name of the lattice is the plain Function unless cola exports the wrapper
                pub = U.public_callable(fn)
                if pub is f._abstract:
                    raise FailClosed(f"{fn}: abstract wrapper with unexpected parameters {list(sig.parameters)}")
        arities = {len(r["types"]) for r in d["rules"]}
        if max(arities) > len(req) + len(opt):
            # longer signatures exist (e.g. nullspace-like extras): only a problem if the lattice cannot reach them
            pass

    known = parse_known(class_ids)
    return dict(reps=reps, rep_names=rep_names, rid=rid, classes=classes, class_ids=class_ids, types=types,
                type_names=[hint_name(t) for t in types], le=le, bear=bear, funcs=funcs, known=known,
                op_all=op_all, op_base=op_base, imported=imported, failed=failed, U=U)


def has_cond(T, fn):
    return any(r["cond"] is not None for r in T["funcs"][fn]["rules"])


def alg_names(T):
    return [n for n in T["rep_names"] if T["reps"][n].sort == "alg"]


def named_algs(T, fn, pos):
    """algorithm classes that some rule of `fn` names specifically (a hint other than the generic Algorithm / Any) at
    dispatched position `pos`: the table itself says the function admits them"""
    out = []
    generic = {i for i, n in enumerate(T["type_names"]) if n in ("Algorithm", "Any")}
    for r in T["funcs"][fn]["rules"]:
        if pos < len(r["types"]) and r["types"][pos] not in generic:
            for n in alg_names(T):
                if T["bear"][n][r["types"][pos]] and n not in out:
                    out.append(n)
    return out


def choices(T, fn, full):
    """lists of rep names: (required parameter choices, optional parameter choices).
    full=True: every annotation variant everywhere.  full=False (reduced): annotation variants only for functions that
    have a conditional rule (resolution sees an argument only through its isinstance row and the condition bits).
    full='ext': reduced operators, and EVERY Algorithm subclass of the live package in every algorithm position (the
    lattice of the no-ties theorem).
    Algorithm positions of the admissible lattice: the documented classes (Appendix B) plus every class that a rule
    of the function names specifically, so that an algorithm the table knows about cannot be left out."""
    U = T["U"]
    req, opt = U.LATTICE[fn]
    ext = full == "ext"
    ops = T["op_all"] if ((full is True) or has_cond(T, fn)) else T["op_base"]
    algs = alg_names(T)

    def ch(c, pos):
        if c == "OPS":
            return list(ops)
        if c == "OPS+ND":
            return list(ops) + ["ndarray"]
        if isinstance(c, str):
            return [c]
        c = list(c)
        if c and all(x in algs for x in c):
            if ext:
                return list(algs)
            for n in named_algs(T, fn, pos):
                if n not in c:
                    c.append(n)
        return c
    return [ch(c, i) for i, c in enumerate(req)], [ch(c, len(req) + i) for i, (_, c) in enumerate(opt)]


def mask(bits):
    m = 0
    for i, b in enumerate(bits):
        if b:
            m |= 1 << i
    return m


def coq_text(T):
    rid, reps = T["rid"], T["reps"]
    L = []
    w = L.append
    w("(* GENERATED by harness/translate_c04_rules.py from the live plum registry of the cola tree -- do not edit. *)")
    w("From Coq Require Import List ZArith NArith PArith Bool String.")
    w("From Core Require Import C04_Resolver.")
    w("Import ListNotations.")
    w("Local Open Scope string_scope.")
    w("")
    w("(* type hints *)")
    for i, n in enumerate(T["type_names"]):
        w(f"(* t{i} = {n} *)")
    w("Definition le_row (a : N) : N :=\n  match a with")
    for a, row in enumerate(T["le"]):
        w(f"  | {a}%N => {hex(mask(row))}%N")
    w("  | _ => 0%N\n  end.")
    w("")
    w("(* representative abstract arguments: id name class annotation-variant *)")
    for n in T["rep_names"]:
        r = reps[n]
        w(f"(* r{rid[n]} = {n} : {r.sort} {r.cls} {r.ann or '-'}{'' if r.square else ' factors-not-all-square'}{'' if r.public or r.sort != 'op' else ' internal'} *)")
    w("Definition bear_row (r : positive) : N :=\n  match r with")
    for n in T["rep_names"]:
        w(f"  | {rid[n]}%positive => {hex(mask(T['bear'][n]))}%N")
    w("  | _ => 0%N\n  end.")
    w("(* classes *)")
    for c, i in T["class_ids"].items():
        w(f"(* c{i} = {c} *)")
    w("Definition rep_class (r : positive) : N :=\n  match r with")
    for n in T["rep_names"]:
        w(f"  | {rid[n]}%positive => {T['class_ids'][reps[n].cls]}%N")
    w("  | _ => 9999%N\n  end.")
    w("Definition class_name (c : N) : string :=\n  match c with")
    for c, i in T["class_ids"].items():
        w(f"  | {i}%N => \"{c}\"")
    w("  | _ => \"?\"\n  end.")

    def plist(names):
        return "[" + ";".join(f"{rid[n]}%positive" for n in names) + "]"
    w(f"Definition ops_all : list positive := {plist(T['op_all'])}.")
    w(f"Definition ops_base : list positive := {plist(T['op_base'])}.")
    structured = [n for n in T["op_all"] if reps[n].structured]
    w(f"Definition ops_structured : list positive := {plist(structured)}.")
    w(f"Definition ops_structured_square : list positive := {plist([n for n in structured if reps[n].square])}.")
    for n in T["rep_names"]:
        if reps[n].sort != "op":
            w(f"Definition r_{n} : positive := {rid[n]}%positive.")
    w("(* position of the operator argument in every function of the lattice *)")
    w("Definition oppos (f : string) : nat :=\n  match f with")
    for fn in T["funcs"]:
        rq = T["U"].LATTICE[fn][0]
        w(f"  | \"{fn}\" => {[i for i, c in enumerate(rq) if isinstance(c, str) and c.startswith('OPS')][0]}%nat")
    w("  | _ => 0%nat\n  end.")

    def tname(i):
        return T["type_names"][i]
    for special, nm in (("Any", "t_any"), ("LinearOperator", "t_linop"), ("Algorithm", "t_algorithm")):
        idx = [i for i, n in enumerate(T["type_names"]) if n == special]
        w(f"Definition {nm} : N := {idx[0] if idx else 9999}%N.")

    def cond_s(ct):
        if ct is None:
            return "None"
        p, rs = ct
        m = 0
        for r in rs:
            m |= 1 << r
        return f"(Some ({p}%nat, {hex(m)}%N))"

    def nlist(ts):
        return "[" + ";".join(f"{t}%N" for t in ts) + "]"
    for fn, d in T["funcs"].items():
        w("")
        w(f"(* ---- {fn} ---- *)")
        for i, q in enumerate(d["raw"]):
            w(f"(* registration {i}: {fn}({', '.join(tname(t) for t in q['types'])}) prec={q['prec']} cond={'yes' if q['cond'] else 'no'} defaults={q['ndef']}  {q['module']}:{q['line']} *)")
        w(f"Definition raw_{fn} : list rawrule := [")
        w(";\n".join(f"  mkraw {nlist(q['types'])} ({q['prec']})%Z {cond_s(q['condtab'])} {q['ndef']}%nat" for q in d["raw"]))
        w("].")
        w(f"Definition rules_{fn} : list rule := [")
        w(";\n".join(f"  mkrule {nlist(r['types'])} ({r['prec']})%Z {cond_s(r['condtab'])} {r['orig']}%N" for r in d["rules"]))
        w("].")
        for full in (True, False, "ext"):
            req, opt = choices(T, fn, full)
            tag = "ext" if full == "ext" else ("full" if full else "red")
            ab = "None" if d["abstract"] is None else f"(Some {plist(d['abstract'])})"
            w(f"Definition spec_{tag}_{fn} : fspec := mkspec \"{fn}\" rules_{fn} {ab}\n  [{'; '.join(plist(c) for c in req)}]\n  [{'; '.join(plist(c) for c in opt)}].")
    w("")
    fns = list(T["funcs"])
    w("Definition raw_tables : list (list rawrule * list rule) := [" + "; ".join(f"(raw_{fn}, rules_{fn})" for fn in fns) + "].")
    w("Definition specs_full : list fspec := [" + "; ".join(f"spec_full_{fn}" for fn in fns) + "].")
    w("Definition specs_red : list fspec := [" + "; ".join(f"spec_red_{fn}" for fn in fns) + "].")
    w("(* every Algorithm subclass of the live package in every algorithm position *)")
    w("Definition specs_ext : list fspec := [" + "; ".join(f"spec_ext_{fn}" for fn in fns) + "].")
    w("")
    w("(* committed exceptions (KNOWN_FINDINGS.txt / harness/c04_proposed_known.txt), never derived from the run *)")
    ents = []
    for k in T["known"]:
        if any(i == -1 for i in k["ids"]):
            w(f"(* skipped (class no longer exists): {k['tuple'].replace('*', 'ANY')} *)")
            continue
        pat = "[" + "; ".join("None" if i is None else f"Some {i}%N" for i in k["ids"]) + "]"
        ents.append(f"  (\"{k['fn']}\", {pat}, K{k['kind']})  (* {k['tuple'].replace('*', 'ANY')} [{k['source']}] *)")
    w("Definition known : list kentry := [")
    w(";\n".join(ents))
    w("].")
    import c04_calls
    w(c04_calls.coq_templates(T))
    return "\n".join(L) + "\n"


def main():
    try:
        T = build_table()
        text = coq_text(T)
    except FailClosed as e:
        print(f"translate_c04_rules: FAIL-CLOSED: {e}", file=sys.stderr)
        return 2
    os.makedirs(os.path.dirname(OUT), exist_ok=True)
    old = open(OUT).read() if os.path.exists(OUT) else None
    if old != text:
        tmp = OUT + ".tmp"
        with open(tmp, "w") as f:
            f.write(text)
        os.replace(tmp, OUT)
        print(f"translate_c04_rules: wrote {OUT} ({len(T['types'])} hints, {len(T['rep_names'])} reps, {sum(len(d['rules']) for d in T['funcs'].values())} signatures)")
    return 0


if __name__ == "__main__":
    sys.exit(main())
