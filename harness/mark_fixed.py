"""usage: mark_fixed.py <commit> <property>:<flag> [...]  -- turn the matching `known:` lines of KNOWN_FINDINGS.txt into `fixed:` lines"""
import re, sys
commit, pairs = sys.argv[1], {tuple(a.split(":", 1)) for a in sys.argv[2:]}
out, n = [], 0
for line in open("/verif/KNOWN_FINDINGS.txt"):
    m = re.match(r"known:\s+property=(\w+)\s+flag=(\S+)\s+(.*)", line.strip())
    if m and (m.group(1), m.group(2)) in pairs:
        out.append(f"fixed: property={m.group(1)} {commit} flag={m.group(2)} {m.group(3)}\n"); n += 1
    else:
        out.append(line)
open("/verif/KNOWN_FINDINGS.txt", "w").write("".join(out))
print("marked", n)
