"""C04: python mirror of the lattice enumeration of coq/C04_Resolver.v (`calls`, `forms`, `dargs`) and the live
side of the correspondence (plum's own resolve_method on the live table).  Order of enumeration = Coq's."""
import itertools


def kwforms(ch):
    if not ch:
        return [[]]
    rest = kwforms(ch[1:])
    return [[a] + r for a in ([("O", None)] + [("K", x) for x in ch[0]]) for r in rest]


def forms(ch):
    if not ch:
        return [[]]
    rest = forms(ch[1:])
    return [[("P", x)] + r for x in ch[0] for r in rest] + kwforms(ch)


def calls(req_choices, opt_choices):
    fs = forms(opt_choices)
    return [(list(req), f) for req in itertools.product(*req_choices) for f in fs]


def dargs(abstract_defaults, req, opt):
    """names of the reps plum dispatches on"""
    if abstract_defaults is not None:
        return list(req) + [(d if k == "O" else x) for (k, x), d in zip(opt, abstract_defaults)]
    out = list(req)
    for k, x in opt:
        if k != "P":
            break
        out.append(x)
    return out


def form_str(fn, req, opt, opt_names):
    parts = list(req)
    for (k, x), n in zip(opt, opt_names):
        if k == "P":
            parts.append(x)
        elif k == "K":
            parts.append(f"{n}={x}")
    return f"{fn}({', '.join(parts)})"


def live_verdict(function, rules, args):
    """plum's own verdict on concrete arguments: code 0 NotFound, 1 Ambiguous, 2+i Unique i (index in f.methods)"""
    from plum.resolver import AmbiguousLookupError, NotFoundLookupError
    try:
        _, _, sig = function.resolve_method(tuple(args))
    except AmbiguousLookupError:
        return 1
    except NotFoundLookupError:
        return 0
    for i, r in enumerate(rules):
        if r["sig"] is sig:
            return 2 + i
    raise RuntimeError("selected signature is not in the live method list")


def class_tuple(T, fn, dnames):
    return f"{fn}({','.join(T['reps'][n].cls for n in dnames)})"


def covered(T, fn, dnames):
    """the known entry (tuple string) covering this dispatched tuple, or None"""
    cl = [T["reps"][n].cls for n in dnames]
    for k in T["known"]:
        if k["fn"] == fn and len(k["classes"]) == len(cl) and all(p == "*" or p == c for p, c in zip(k["classes"], cl)):
            return k["tuple"]
    return None


def coqc_many_consistent(jobs, timeout=900, retries=2):
    """core.coqc_many, but when a shard fails because the shared table/.vo files were rebuilt by a concurrent check
    (another process regenerating coq/C04_RuleTable.v between our build and our shards), rebuild and retry."""
    import core
    res = core.coqc_many(jobs, timeout=timeout)
    for _ in range(retries):
        bad = [i for i, (rc, out) in enumerate(res) if rc != 0 and ("inconsistent assumptions" in out or "Cannot find a physical path" in out or "bad version number" in out or "is not a valid" in out)]
        if not bad:
            break
        core.build_coq()
        again = core.coqc_many([jobs[i] for i in bad], timeout=timeout)
        for i, r in zip(bad, again):
            res[i] = r
    return res
