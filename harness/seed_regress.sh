#!/bin/bash
# usage: seed_regress.sh [ids...]   -- apply every stored seed to a scratch worktree at /repo HEAD and run its property's quick check against it;
# one line per seed in run/seed_regress.log: id, applies?, last summary line of the check.  Never touches /repo's working tree.
wt=/tmp/seedre
[ -d $wt ] || git -C /repo worktree add -q --detach $wt HEAD
cd $wt && git checkout -q --detach $(git -C /repo rev-parse HEAD) && git reset -q --hard && git clean -qfd
ids=${@:-$(ls /verif/seeded)}
for id in $ids; do
  P=$(python3 -c "import json,re; m=json.load(open('/verif/seeded/$id/meta.json')); print(re.search(r'check (C\\d\\d)', m.get('check_run','')+' check ${id:0:3}').group(1))")
  cd $wt && git reset -q --hard
  if git apply /verif/seeded/$id/patch.diff 2>/dev/null || git apply --3way /verif/seeded/$id/patch.diff 2>/dev/null; then ap=applies; else ap=DOES-NOT-APPLY; git reset -q --hard; echo "$id $ap" >> /verif/run/seed_regress.log; continue; fi
  PYTHONPATH=$wt /venv/bin/python /verif/seeded/$id/demo.py >/dev/null 2>&1; drc=$?
  out=$(cd /verif && COLA_REPO=$wt timeout 2400 ./check $P 2>&1 | grep -v '^KNOWN' | tail -1 | cut -c1-200)
  echo "$id $ap demo_rc=$drc $out" >> /verif/run/seed_regress.log
done
cd $wt && git reset -q --hard
echo "regress done" >> /verif/run/seed_regress.log
