"""C12 helpers: generators of Hermitian positive-definite systems, the runner of cola's cg on a case, the
emitter of Coq case files for coq/C12_Check.v, and the independent numpy oracle (dense Krylov optimum,
stopping contract).  Also reused by C13 (float formatting, spectra, counting operator)."""
import re
import numpy as np
import shim  # noqa: F401
import cola
from cola.ops import Dense, LinearOperator
import core


# ---------------------------------------------------------------- formatting
def fl(v):
    v = float(v)
    if v != v:
        return "nan"
    if v == float("inf"):
        return "infinity"
    if v == float("-inf"):
        return "neg_infinity"
    return "(" + v.hex() + ")"


def sc(v, cplx):
    if cplx:
        v = complex(v)
        return "(" + fl(v.real) + "," + fl(v.imag) + ")"
    return fl(np.real(v))


def vec(v, cplx):
    return "[" + ";".join(sc(x, cplx) for x in v) + "]"


def mat_rows(M, cplx):
    return "[" + ";\n ".join(vec(r, cplx) for r in M) + "]"


def cols(M, cplx):
    """list of columns of a 2-D array"""
    return "[" + ";".join(vec(M[:, j], cplx) for j in range(M.shape[1])) + "]"


# ---------------------------------------------------------------- generators
def np_rng(ctx):
    return np.random.default_rng(ctx.rng.getrandbits(64))


def rand_unitary(rs, n, cplx):
    G = rs.normal(size=(n, n)) + (1j * rs.normal(size=(n, n)) if cplx else 0)
    Q, R = np.linalg.qr(G)
    d = np.diag(R)
    return Q * (d / np.abs(d))


SPECTRA = ("geom", "uniform", "clustered", "repeated", "outlier")


def spectrum(rs, n, kappa, kind):
    if n == 1:
        return np.array([float(rs.uniform(0.5, 2.0))])
    if kind == "geom":
        lam = kappa ** (np.arange(n) / (n - 1))
    elif kind == "uniform":
        lam = 1 + (kappa - 1) * np.sort(rs.random(n))
        lam[0], lam[-1] = 1.0, kappa
    elif kind == "clustered":
        c = max(1, min(n, int(rs.integers(2, 5))))
        centers = kappa ** (np.arange(c) / max(1, c - 1))
        lam = np.array([centers[i % c] * (1 + 1e-3 * rs.random()) for i in range(n)])
    elif kind == "repeated":
        c = max(1, min(n, int(rs.integers(1, 5))))
        centers = kappa ** (np.arange(c) / max(1, c - 1)) if c > 1 else np.array([1.0])
        lam = np.array([centers[i % c] for i in range(n)])
    else:  # one large outlier
        lam = 1 + rs.random(n)
        lam[-1] = max(kappa, 1.0)
    scale = 10.0 ** rs.uniform(-1, 1)
    return np.sort(lam) * scale


def make_spd(rs, n, cplx, kappa, kind):
    lam = spectrum(rs, n, kappa, kind)
    Q = rand_unitary(rs, n, cplx)
    A = (Q * lam) @ Q.conj().T
    A = (A + A.conj().T) / 2
    return A if cplx else np.real(A)


PRECONDS = ("none", "identity", "jacobi", "spd", "nystrom")


def make_precond(rs, kind, A, cplx):
    """returns (cola operator or None, dense matrix of it)"""
    n = A.shape[0]
    dt = A.dtype
    if kind == "none":
        return None, np.eye(n, dtype=dt)
    if kind == "identity":
        return cola.ops.I_like(Dense(A)), np.eye(n, dtype=dt)
    if kind == "jacobi":
        d = 1.0 / np.real(np.diag(A))
        return cola.ops.Diagonal(d.astype(dt)), np.diag(d).astype(dt)
    if kind == "nystrom" and not cplx and n >= 2:
        from cola.linalg.preconditioning.preconditioners import NystromPrecond
        P = NystromPrecond(cola.PSD(Dense(A)), rank=max(1, n // 2), key=int(rs.integers(1, 2 ** 30)))
        D = np.asarray(P @ np.eye(n, dtype=dt))
        D = (D + D.T) / 2
        return Dense(D), D
    M = make_spd(rs, n, cplx, float(10.0 ** rs.uniform(0, 1)), "uniform").astype(dt)
    return Dense(M), M


COUNTS = {}


class CountingOp(LinearOperator):
    """an operator given by a dense matrix that counts its products (public subclassing API of cola); the counter
    lives in a module-level table because annotation wrappers such as cola.PSD re-create the object"""
    _next = [0]

    def __init__(self, M, tag=None):
        super().__init__(M.dtype, M.shape)
        self.M = M
        if tag is None:
            CountingOp._next[0] += 1
            tag = CountingOp._next[0]
            COUNTS[tag] = []
        self.tag = tag

    @property
    def count(self):
        return len(COUNTS[self.tag])

    @property
    def widths(self):
        return COUNTS[self.tag]

    def _matmat(self, X):
        COUNTS[self.tag].append(X.shape[-1] if X.ndim > 1 else 1)
        return self.M @ X


# ---------------------------------------------------------------- implementation runner
def run_impl(case, via_inv=False):
    """runs cola's cg on the case; observables: solution (n x nc), steps (products with A minus one), info"""
    from cola.linalg.inverse.cg import cg, CG
    A, B, X0 = case["A"], case["B"], case["X0"]
    obs = {}
    try:
        op = CountingOp(A.copy())
        P = case["Pop"]
        vecapi = case.get("vector_api", False)
        b = B[:, 0].copy() if vecapi else B.copy()
        x0 = None if X0 is None else (X0[:, 0].copy() if vecapi else X0.copy())
        if via_inv:
            inv = cola.linalg.inv(cola.PSD(op), CG(tol=case["tol"], max_iters=case["max_iters"], x0=x0, P=P))
            x = inv @ b
            info = inv.info
        else:
            x, info = cg(cola.PSD(op), b, x0=x0, P=P, tol=case["tol"], max_iters=case["max_iters"])
        x = np.asarray(x)
        obs["shape_ok"] = (x.shape == b.shape)
        obs["x"] = x.reshape(B.shape) if x.size == B.size else x
        obs["products"] = op.count
        obs["widths"] = list(op.widths)
        obs["steps"] = op.count - 1
        obs["iterations"] = int(info["iterations"])
        obs["errors"] = [float(e) for e in np.asarray(info["errors"]).reshape(-1)]
        COUNTS.pop(op.tag, None)
        obs["ok"] = True
    except Exception as e:
        obs["ok"] = False
        obs["err"] = type(e).__name__ + ": " + str(e)[:300]
    return obs


# ---------------------------------------------------------------- Coq emission
HEADER = ("From Coq Require Import List Bool Arith NArith PrimFloat.\nFrom Core Require Import C12_Ops C12_Model C12_Check.\n"
          "Import ListNotations.\nOpen Scope float_scope.\n")


def coq_case(case, obs, sysname, flag):
    cplx = case["cplx"]
    B = case["B"]
    X0 = case["X0"] if case["X0"] is not None else np.zeros_like(B)
    X = obs["x"]
    scales = [float(np.max(np.abs(X[:, j]))) if X.shape[0] else 0.0 for j in range(X.shape[1])]
    return ("{| kA := %s_A; kP := %s_P; kB := %s; kX0 := %s; ktol := %s; kmax := %d%%N; kflag := %s;\n"
            "   eX := %s; eScale := %s; eSteps := %d%%N; eIts := %d%%N; eErr := %s |}"
            % (sysname, sysname, cols(B, cplx), cols(X0, cplx), sc(case["tol"], cplx), case["max_iters"],
               "true" if flag else "false", cols(X, cplx), "[" + ";".join(fl(s) for s in scales) + "]",
               obs["steps"], obs["iterations"], "[" + ";".join(fl(e) for e in obs["errors"]) + "]"))


def eval_in_coq(name, items, flag, shard=120, timeout=900, div_small=True, abs_guard=True):
    """items: list of (case, obs). Returns (failing indices, near-tie indices, error or None)."""
    jobs, index = [], []
    for cplx in (False, True):
        sel = [i for i, (c, o) in enumerate(items) if c["cplx"] == cplx]
        for s in range(0, len(sel), shard):
            part = sel[s:s + shard]
            systems, body, terms = {}, [], []
            for i in part:
                c, o = items[i]
                key = c["sys_id"]
                if key not in systems:
                    systems[key] = "s%d" % len(systems)
                    body.append("Definition %s_A := %s.\nDefinition %s_P := %s.\n"
                                % (systems[key], mat_rows(c["A"], cplx), systems[key], mat_rows(c["Pd"], cplx)))
                terms.append(coq_case(c, o, systems[key], flag))
            ty = "cpx" if cplx else "float"
            text = HEADER + "".join(body) + "Definition cases : list (case %s) := [\n" % ty + ";\n".join(terms) + "].\n"
            text += "Eval vm_compute in (length cases, %s cases).\n" % (("classify_cplx" if cplx else "classify_real") + ("" if div_small else ("1" if abs_guard else "2")))
            jobs.append(("%s_%s%d" % (name, "c" if cplx else "r", s // shard), text))
            index.append(part)
    outs = core.coqc_many(jobs, timeout)
    failing, near = [], []
    for part, (rc, out) in zip(index, outs):
        m = re.search(r"=\s*\((\d+)(?:%nat)?,\s*\(\[(.*?)\],\s*\[(.*?)\]\)\)", out.replace("%nat", ""), flags=re.S)
        if rc != 0 or not m or int(m.group(1)) != len(part):
            return None, None, "coqc rc=%s\n%s" % (rc, out[-1500:])
        for grp, acc in ((2, failing), (3, near)):
            if m.group(grp).strip():
                acc += [part[int(x)] for x in m.group(grp).replace("\n", " ").split(";") if x.strip()]
    return failing, near, None


# ---------------------------------------------------------------- independent oracle
def krylov_basis(A, M, r0, k):
    """orthonormal basis of span{M r0, (MA) M r0, ...} (k vectors or fewer if the space is exhausted)"""
    K = []
    v = M @ r0
    ref = np.linalg.norm(v)
    for _ in range(k):
        w = v.copy()
        nb = np.linalg.norm(w)
        for _rep in range(2):
            for q in K:
                w = w - (q.conj() @ w) * q
        nw = np.linalg.norm(w)
        if nw <= 1e-9 * max(nb, 1e-300) or ref == 0:
            break
        q = w / nw
        K.append(q)
        v = M @ (A @ q)
    return np.stack(K, 1) if K else np.zeros((len(r0), 0), dtype=A.dtype)


def krylov_optimum(A, M, b, x0, k):
    """argmin of the A-norm of the error over x0 + K_k(MA, M r0), dense numpy"""
    r0 = b - A @ x0
    K = krylov_basis(A, M, r0, k)
    if K.shape[1] == 0:
        return x0.copy()
    G = K.conj().T @ A @ K
    y = np.linalg.solve(G, K.conj().T @ r0)
    return x0 + K @ y


def anorm(A, v):
    return float(np.sqrt(max(0.0, np.real(v.conj() @ (A @ v)))))


def oracle(case, obs, flag_present, opt_tol):
    """checks the property's clauses on the implementation's output. Returns (failed clauses, info)."""
    bad, info = [], {}
    if not obs.get("ok"):
        return ["raised " + obs.get("err", "")], info
    A, B, Pd = case["A"], case["B"], case["Pd"]
    n, nc = B.shape
    X0 = case["X0"] if case["X0"] is not None else np.zeros_like(B)
    X = obs["x"]
    steps, K = obs["steps"], case["max_iters"]
    if not obs["shape_ok"]:
        bad.append("shape of the solution")
    if steps < 0 or steps > K:
        bad.append("steps=%d exceeds max_iters=%d" % (steps, K))
    if obs["iterations"] != steps + 1:
        bad.append("info['iterations']=%d but %d products with A (steps+1 expected)" % (obs["iterations"], obs["products"]))
    if len(obs["errors"]) != steps:
        bad.append("len(info['errors'])=%d, steps=%d" % (len(obs["errors"]), steps))
    bn = np.linalg.norm(B, axis=0)
    # zero right-hand side -> exactly zero
    for j in range(nc):
        if bn[j] == 0 and np.any(X[:, j] != 0):
            bad.append("column %d: zero right-hand side but non-zero solution" % j)
    if not np.all(np.isfinite(X)):
        bad.append("non-finite solution")
        return bad, info
    # stopping contract on the tracked residuals (recursively updated, relative to ||b||)
    safe = np.where(bn < 1e-40, 1e-40 if case.get("div_small", True) else 1.0, bn)     # do_safe_div: 1e-40 (pinned) or 1 (repaired)
    scaled_x0 = X0 if flag_present else X0 / safe
    r0n = np.linalg.norm(B / safe - A @ scaled_x0, axis=0)
    tolc = case["tol"] * (1 + r0n)
    errs = obs["errors"]
    slack = 1e-6
    if steps < K and steps >= 1:
        # stopped by the residual test: the last tracked mean residual is below the largest column tolerance
        if errs and errs[-1] > float(np.max(tolc)) * (1 + slack) + 1e-300:
            bad.append("stopped at step %d < max_iters with mean residual %.3e > tolerance %.3e" % (steps, errs[-1], float(np.max(tolc))))
    if steps < K and steps == 0:
        if np.any(r0n > tolc * (1 + slack)):
            bad.append("no step taken although the initial residual exceeds the tolerance")
    if nc == 1 and len(errs) >= 2:
        # it did not stop earlier: every tracked residual before the last was above the tolerance
        for e in errs[:-2]:
            if e <= tolc[0] * (1 - slack):
                bad.append("continued although the residual %.3e was already below the tolerance %.3e" % (e, tolc[0]))
                break
    # The stopping clause on the implementation's own output, per column: the true residual of the returned vector against
    # tol*(1 + ||r0||/||b||), relative to ||b||.  The loop tests the recursively updated residual; it differs from the true
    # one by rounding only: allowance att = 1e3*eps*kappa*(||A|| ||x|| + ||b||)/||b||, plus 1e-3 relative.
    anorm2 = float(np.linalg.norm(A, 2))
    kap = case.get("kappa", 1.0)

    def true_res(Xv):
        tr_ = np.linalg.norm(B - A @ Xv, axis=0) / safe
        att_ = 1e3 * 2.2e-16 * kap * (anorm2 * (np.linalg.norm(Xv, axis=0) + np.linalg.norm(X0, axis=0)) + bn) / safe      # r0 = b - A x0 is rounded at the scale of x0
        return tr_, att_
    spoiled = (flag_present and np.any(X0 != 0)) or bool(case.get("guard_region"))     # regions of recorded defects
    # a zero right-hand side with x0 != 0 is iterated on internally (from x0/1e-40) but returned as exactly 0: its loop state is
    # not observable in the output, so the per-column clauses cannot be evaluated for such a batch
    hidden = any(bn[j] == 0 and np.any(X0[:, j] != 0) for j in range(nc)) or not np.any(bn > 0)
    if steps < K and not spoiled and not hidden:
        tr, att = true_res(X)
        over = [j for j in range(nc) if bn[j] > 0 and tr[j] > tolc[j] * (1 + 1e-3) + att[j]]
        if over:
            bad.append("stopped after %d < max_iters=%d steps although column(s) %s are above their threshold: residual/||b|| %s vs tol*(1+||r0||/||b||) %s"
                       % (steps, K, over, [float(tr[j]) for j in over], [float(tolc[j]) for j in over]))
    prev = case.get("prev_obs")
    if prev is not None and prev.get("ok") and steps >= 1 and not spoiled and not hidden:
        # one step earlier at least one column must still have been above its threshold
        trp, attp = true_res(prev["x"])
        if prev["steps"] == steps - 1 and all(bn[j] == 0 or trp[j] < tolc[j] * (1 - 1e-3) - attp[j] for j in range(nc)):
            bad.append("took step %d although after %d steps every column was already below its threshold: residual/||b|| %s vs %s"
                       % (steps, steps - 1, trp.tolist(), tolc.tolist()))
        info["late_stop_checked"] = 1
    # the reported residual history against the implementation's own iterates: errors has one entry per step, its last two
    # entries are the tracked (mean over columns, relative to ||b||) residual of the returned iterate, the one before that of
    # the iterate one step earlier (obtained by re-running with max_iters = steps - 1)
    if not spoiled and not hidden and len(errs) == steps and steps >= 1 and np.all(np.isfinite(X)):
        tr, att = true_res(X)
        nz = bn > 0
        want = float(np.mean(np.where(nz, tr, 0.0)))
        allow = 1e-3 * want + float(np.mean(np.where(nz, att, 0.0))) + 1e-300
        if abs(errs[-1] - want) > allow or (steps >= 2 and errs[-2] != errs[-1]):
            bad.append("info['errors'][-2:] = %s but the returned iterate has tracked residual %.6e" % (errs[-2:], want))
        if prev is not None and prev.get("ok") and prev["steps"] == steps - 1 and steps >= 3:
            trp, attp = true_res(prev["x"])
            wantp = float(np.mean(np.where(nz, trp, 0.0)))
            if abs(errs[-3] - wantp) > 1e-3 * wantp + float(np.mean(np.where(nz, attp, 0.0))) + 1e-300:
                bad.append("info['errors'][-3] = %.6e but the iterate after %d steps has tracked residual %.6e" % (errs[-3], steps - 1, wantp))
        info["history_checked"] = 1
    # Krylov optimality of the iterate after `steps` steps
    if case.get("check_opt", True) and steps >= 0 and not case.get("guard_region"):
        worst = 0.0
        for j in range(nc):
            if bn[j] == 0:
                continue
            if flag_present and np.any(X0[:, j] != 0) and abs(bn[j] - 1) > 1e-12:
                continue   # region spoiled by the recorded defect cg_x0_unscaled
            xs = np.linalg.solve(A, B[:, j])
            xo = krylov_optimum(A, Pd, B[:, j], X0[:, j], steps)
            e0 = anorm(A, xs - X0[:, j])
            d = anorm(A, X[:, j] - xo) / max(e0, 1e-300)
            worst = max(worst, d)
            if d > opt_tol:
                bad.append("column %d: iterate after %d steps is %.3e (A-norm, relative to the initial error) away from the Krylov optimum" % (j, steps, d))
            # the same distance relative to the error the optimum still has: after many steps the initial error has shrunk by orders
            # of magnitude and a wrong direction update hides below opt_tol * initial error
            cur = anorm(A, xs - xo)
            if case.get("sens_rel", np.inf) <= 1e-6 and cur >= 1e-9 * e0 and cur > 0:
                dr = anorm(A, X[:, j] - xo) / cur
                info["opt_dist_rel"] = max(info.get("opt_dist_rel", 0.0), dr)
                if dr > 1e-3:
                    bad.append("column %d: iterate after %d steps is %.3e of the remaining optimal error away from the Krylov optimum (A-norm)" % (j, steps, dr))
        info["opt_dist"] = worst
    return bad, info


# ---------------------------------------------------------------- numerical-stability filter (case selection only)
def ref_cg(A, Pd, B, X0, tol, K, dtype, x0_unscaled=True, div_small=True, abs_guard=True):
    """Reference recurrence of preconditioned CG with per-column normalisation in precision `dtype`; used ONLY to
    decide whether a case is numerically stable enough for a tolerance comparison (it depends on the inputs only,
    never on cola's output), not as an oracle."""
    small = 1e-40
    A, Pd, B, X0 = A.astype(dtype), Pd.astype(dtype), B.astype(dtype), X0.astype(dtype)
    nrm = lambda R: np.sqrt(np.sum((R.conj() * R).real, axis=0, keepdims=True))
    hit = [False]      # a guard of do_safe_div fired although the numerator is not zero: the absolute 1e-40 acts on a scaled quantity

    def sdiv(num, den):
        z = (np.abs(den) < small) if abs_guard else (np.abs(den) == 0)
        if np.any(z & (np.abs(num) > 0)):
            hit[0] = True
        return num / np.where(z, small if div_small else 1.0, den)
    mult = nrm(B)
    X = X0 if x0_unscaled else sdiv(X0, mult)
    R = sdiv(B, mult) - A @ X
    Z = Pd @ R
    Pv = Z
    gamma = np.sum(R.conj() * Z, axis=0, keepdims=True)
    tolc = tol * nrm(R) + tol
    k, margins, hist, xs = 0, [], [], []
    while True:
        rs = nrm(R)
        hist.append(rs.copy())
        xs.append(X * mult)
        margins.append(float(np.min(np.abs(rs - tolc) / tolc)))
        if not (np.any(rs > tolc) and k < K):
            break
        conv = rs < small
        Ap = A @ Pv
        alpha = np.where(conv, 0, sdiv(gamma, np.sum(Pv.conj() * Ap, axis=0, keepdims=True)))
        X = X + alpha * Pv
        R = R - alpha * Ap
        Z = Pd @ R
        g1 = np.sum(R.conj() * Z, axis=0, keepdims=True)
        beta = np.where(conv, 0, sdiv(g1, gamma))
        gamma = g1
        Pv = Z + beta * Pv
        k += 1
    return dict(x=X * mult, steps=k, margins=margins, hist=hist, xs=xs, guard_hit=hit[0])


def stability(case, x0_unscaled=True):
    """sensitivity of the recurrence to rounding: binary64 against extended precision.
    Returns dict(same_steps, dev_x, dev_r, min_margin)."""
    cplx = case["cplx"]
    B = case["B"]
    X0 = case["X0"] if case["X0"] is not None else np.zeros_like(B)
    lo = ref_cg(case["A"], case["Pd"], B, X0, case["tol"], case["max_iters"], np.complex128 if cplx else np.float64, x0_unscaled, case.get("div_small", True), case.get("abs_guard", True))
    hi = ref_cg(case["A"], case["Pd"], B, X0, case["tol"], case["max_iters"], np.clongdouble if cplx else np.longdouble, x0_unscaled, case.get("div_small", True), case.get("abs_guard", True))
    out = dict(same_steps=lo["steps"] == hi["steps"], steps=lo["steps"], min_margin=min(lo["margins"] + hi["margins"]), guard_hit=bool(lo["guard_hit"] or hi["guard_hit"]))
    if not out["same_steps"]:
        out.update(dev_x=np.inf, dev_r=np.inf, sens_A=np.inf, sens_rel=np.inf)
        return out
    sc_ = np.max(np.abs(hi["x"]), axis=0)
    sc_ = np.where(sc_ == 0, 1.0, sc_)
    out["dev_x"] = float(np.max(np.max(np.abs(lo["x"] - hi["x"]), axis=0) / sc_)) if B.shape[0] else 0.0
    dr = 0.0
    for a, b in zip(lo["hist"], hi["hist"]):
        dr = max(dr, float(np.max(np.abs(a - b) / (np.abs(b) + 1e-4))))   # mirrors err_close (1e-7 rel + 1e-11 abs) three orders tighter
    out["dev_r"] = dr
    # the same deviation in the metric of the optimality oracle (A-norm relative to the initial error)
    A = case["A"]
    sens = 0.0
    for j in range(B.shape[1]):
        if not np.any(B[:, j]):
            continue
        e0 = anorm(A, np.linalg.solve(A, B[:, j]) - np.asarray(hi["xs"][0][:, j], dtype=A.dtype))
        for xl, xh in zip(lo["xs"], hi["xs"]):     # every intermediate iterate: trajectories that part and meet again are unstable
            dj = (xl[:, j] - xh[:, j]).astype(A.dtype)
            sens = max(sens, anorm(A, dj) / max(e0, 1e-300))
    out["sens_A"] = sens
    # and relative to the error that REMAINS after the last step (long runs: the initial error has shrunk by many orders)
    srel = 0.0
    for j in range(B.shape[1]):
        if not np.any(B[:, j]):
            continue
        xs = np.linalg.solve(A, B[:, j])
        cur = anorm(A, xs - np.asarray(hi["x"][:, j], dtype=A.dtype))
        srel = max(srel, anorm(A, (lo["x"][:, j] - hi["x"][:, j]).astype(A.dtype)) / max(cur, 1e-300))
    out["sens_rel"] = srel
    return out
