"""C04/C19: where the regenerated rule table lives and how the generated shards are compiled.

The table depends on the tree under test (COLA_REPO).  The shared development /verif/coq holds the table of the default
tree (/repo) only; a check run against ANOTHER tree (mutation scratch copies, fix worktrees, seeded changes -- possibly
several at once, next to checks of other properties that also run every translator) must neither overwrite that file
nor race with its rebuilds.  For such a tree the translator writes run/alt/<hash of the tree path>/C04_RuleTable.v and
the C04/C19 checks compile private copies of their own Coq files (which import nothing else of the development)
against it; theorems that fail on that tree are reported by the check itself."""
import os, sys, hashlib, shutil, fcntl, re
HERE = os.path.dirname(os.path.abspath(__file__))
VERIF = os.path.dirname(HERE)
COQ = os.path.join(VERIF, "coq")
REPO = os.environ.get("COLA_REPO", "/repo")
OWN_FILES = ["C04_Resolver.v", "C04_RuleTable.v", "C04_Proofs.v", "C19_Select.v", "C19_Cost.v"]
PROPS = {"C04": "PropsC04.v", "C19": "PropsC19.v"}


def alt_dir():
    """None for the default tree, else the private build directory of this tree"""
    if os.path.realpath(REPO) == os.path.realpath("/repo"):
        return None
    h = hashlib.sha1(os.path.realpath(REPO).encode()).hexdigest()[:10]
    return os.path.join(VERIF, "run", "alt", h)


def table_path():
    a = alt_dir()
    return os.path.join(a if a else COQ, "C04_RuleTable.v")


def _sh(cmd, cwd, timeout):
    import subprocess
    try:
        p = subprocess.run(cmd, shell=True, cwd=cwd, capture_output=True, text=True, timeout=timeout)
        return p.returncode, p.stdout + p.stderr
    except subprocess.TimeoutExpired:
        return 124, "TIMEOUT"


def ensure_alt():
    """(re)build the private copies; returns dict(ok, failed=[(file, log)], props={pid: (ok, closed, log)})"""
    a = alt_dir()
    if a is None:
        return None
    os.makedirs(a, exist_ok=True)
    with open(os.path.join(a, ".lock"), "w") as lk:
        fcntl.flock(lk, fcntl.LOCK_EX)
        try:
            srcs = {}
            for f in OWN_FILES + list(PROPS.values()):
                if f == "C04_RuleTable.v":
                    p = os.path.join(a, f)
                else:
                    p = os.path.join(COQ, f)
                srcs[f] = open(p).read() if os.path.exists(p) else ""
            stamp = hashlib.sha1("\0".join(f + "\1" + srcs[f] for f in sorted(srcs)).encode()).hexdigest()
            sp = os.path.join(a, ".stamp")
            res_p = os.path.join(a, ".result.json")
            import json
            if os.path.exists(sp) and open(sp).read() == stamp and os.path.exists(res_p):
                return json.load(open(res_p))
            failed, props = [], {}
            for f in OWN_FILES:
                if f != "C04_RuleTable.v":
                    with open(os.path.join(a, f), "w") as o:
                        o.write(srcs[f])
                rc, out = _sh(f"timeout 600 coqc -q -Q . Core {f}", a, 660)
                if rc != 0:
                    failed.append((f, out[-2500:]))
            for pid, f in PROPS.items():
                with open(os.path.join(a, f), "w") as o:
                    o.write(srcs[f])
                rc, out = _sh(f"timeout 600 coqc -q -Q . Core {f}", a, 660)
                n_print = len(re.findall(r"^\s*Print Assumptions", srcs[f], flags=re.M))
                closed = out.count("Closed under the global context")
                props[pid] = (rc == 0 and closed == n_print, closed, out[-2500:] if rc != 0 else "")
            result = dict(ok=not failed, failed=failed, props=props, dir=a)
            json.dump(result, open(res_p, "w"))
            open(sp, "w").write(stamp)
            return result
        finally:
            fcntl.flock(lk, fcntl.LOCK_UN)


def coqc_many(jobs, timeout=900):
    """compile generated shards against the table of the tree under test; returns [(rc, out)]"""
    a = alt_dir()
    if a is None:
        import c04_lattice as LT
        return LT.coqc_many_consistent(jobs, timeout=timeout)
    from concurrent.futures import ThreadPoolExecutor
    gen = os.path.join(a, "gen")
    os.makedirs(gen, exist_ok=True)

    def one(nt):
        name, text = nt
        path = os.path.join(gen, name + ".v")
        with open(path, "w") as f:
            f.write(text)
        rc, out = _sh(f"ulimit -s unlimited 2>/dev/null; timeout {timeout} coqc -q -Q {a} Core {path}", gen, timeout + 30)
        for ext in (".vo", ".glob", ".vok", ".vos"):
            try:
                os.remove(os.path.join(gen, name + ext))
            except OSError:
                pass
        return rc, out
    with ThreadPoolExecutor(max_workers=16) as ex:
        return list(ex.map(one, jobs))


def theorem_mismatches(pid):
    """in private mode: the check itself reports theorems that do not hold on this tree"""
    r = ensure_alt()
    if r is None:
        return []
    out = []
    for f, log in r["failed"]:
        out.append(dict(oracle_fail=False, what=f"{f} does not compile on the rule table of this tree (a theorem of C04/C19 fails here)", log=log[-1500:], tree=REPO))
    p = r["props"].get(pid)
    if p and not p[0] and not r["failed"]:
        out.append(dict(oracle_fail=False, what=f"Props{pid}.v does not check on the rule table of this tree", log=p[2][-1500:], tree=REPO))
    return out
