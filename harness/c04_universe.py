"""C04/C19: the finite universe of abstract arguments (representative instances) and the admissible lattice
(DESIGN.md Appendix B).  Shared by the translator (translate_c04_rules.py), the C04 check and the C19 check.

An abstract argument ("rep") is
  * an operator: (class, declared annotation variant, all-factors-square bit)  -- one live instance each,
  * an algorithm object: its class (a default-constructed instance),
  * another positional value: python int / float / complex, numpy scalar, ndarray, str, callable.
Everything is built through cola's public constructors; `variant` changes sizes and payloads (used to check that the
live verdict depends on the abstraction only)."""
import os, sys, glob, importlib, inspect
from collections import OrderedDict

import shim  # noqa: F401  (numpy backend shim; puts COLA_REPO on sys.path)
import numpy as np
import cola

REPO = shim.REPO


def load_all():
    """Import cola and every module under cola/linalg (several directories have no __init__.py and are not
    imported by `import cola`: svd, preconditioning, tbd) so that the live registry is the complete one.
    Returns (imported, failed) module-name lists, deterministic order."""
    imported, failed = [], []
    for p in sorted(glob.glob(os.path.join(REPO, "cola", "linalg", "**", "*.py"), recursive=True)):
        m = os.path.relpath(p, REPO)[:-3].replace(os.sep, ".")
        if m.endswith("__init__"):
            continue
        try:
            importlib.import_module(m)
            imported.append(m)
        except Exception as e:  # a module needing jax/torch
            failed.append((m, type(e).__name__))
    return imported, failed


def all_subclasses(c):
    out = []
    for s in c.__subclasses__():
        if s not in out:
            out.append(s)
        for t in all_subclasses(s):
            if t not in out:
                out.append(t)
    return out


def is_parametrized(c):
    """plum.parametric concrete instantiation such as Product[Dense, Dense]"""
    return bool(getattr(c, "_concrete", False)) or "[" in getattr(c, "__name__", "")


ANN_VARIANTS = ["", "SA", "PSD", "St", "U"]


def ann_fn(tag):
    return {"": (lambda x: x), "SA": cola.SelfAdjoint, "PSD": cola.PSD, "St": cola.Stiefel, "U": cola.Unitary}[tag]


class Rep:
    __slots__ = ("name", "obj", "sort", "cls", "ann", "kind", "public", "square", "structured")

    def __init__(self, name, obj, sort, cls, ann="", kind=None, public=True, square=True, structured=False):
        self.name, self.obj, self.sort, self.cls, self.ann = name, obj, sort, cls, ann
        self.kind, self.public, self.square, self.structured = kind or name, public, square, structured


def base_operators(variant=0):
    """kind name -> (instance, class name, public?, square?)   (kind name = class name, or class name + 'NS' for the
    representative whose factors are not all square)."""
    from cola import ops as O
    n = 2 + variant
    f64 = np.float64
    S = np.arange(1., n * n + 1).reshape(n, n) * (1 + variant)
    S = S + S.T + n * n * (2 + variant) * np.eye(n)       # symmetric positive definite
    D = O.Dense(S)
    W = O.Dense(np.ones((n, n + 1)) + variant)
    Wt = O.Dense(np.ones((n + 1, n)) * (1 + variant))
    out = OrderedDict()

    def put(kind, obj, public=True, square=True):
        out[kind] = (obj, type(obj).__name__.split("[")[0], public, square)

    put("Dense", D)
    put("Triangular", O.Triangular(np.tril(S)))
    put("Sparse", O.Sparse(np.array([1., 2.] + [3.] * variant), np.arange(n), np.arange(n)[::-1].copy(), (n, n)))
    put("ScalarMul", O.ScalarMul(2. + variant, (n, n), f64))
    put("Identity", O.Identity((n, n), f64))
    put("Product", O.Product(D, D))
    put("ProductNS", O.Product(W, Wt), square=False)
    put("Sum", O.Sum(D, D))
    put("Kronecker", O.Kronecker(D, D))
    put("KronSum", O.KronSum(D, D))
    put("BlockDiag", O.BlockDiag(D, D, multiplicities=[1, 1 + variant]))
    put("Diagonal", O.Diagonal(np.arange(1., n + 1)))
    put("Tridiagonal", O.Tridiagonal(np.ones(n - 1), np.arange(2., n + 2), np.ones(n - 1)))
    put("Transpose", O.Transpose(O.Kronecker(D, D)))
    put("Adjoint", O.Adjoint(O.Kronecker(D, D)))
    put("Sliced", O.Sliced(D, (slice(None), slice(None))))
    put("Jacobian", O.Jacobian(lambda x: x * 2., np.ones(n)))
    put("Hessian", O.Hessian(lambda x: (x * x).sum(), np.ones(n)))
    put("Permutation", O.Permutation(np.arange(n)[::-1].copy(), f64))
    put("Concatenated", O.Concatenated(D, D, axis=0))
    put("Householder", O.Householder(np.eye(n)[:, :1].copy()))
    put("Kernel", O.Kernel(np.ones((n, 1)), np.ones((n, 1)), lambda a, b: a @ b.T, 1, 1))
    put("FFT", O.FFT(n, np.complex128))
    put("LinearOperator", cola.no_dispatch(D))
    # internal kinds (results of rules, arguments of second-level calls)
    from cola.linalg.inverse.gmres import GMRES
    from cola.linalg.algorithm_base import IterativeOperatorWInfo
    from cola.linalg.inverse.inv import TriangularInv
    from cola.linalg.inverse.pinv import LSTSQSolve
    from cola.linalg.unary.unary import LanczosUnary, ArnoldiUnary
    put("IterativeOperatorWInfo", IterativeOperatorWInfo(D, GMRES()), public=False)
    put("TriangularInv", TriangularInv(O.Triangular(np.tril(S))), public=False)
    put("LSTSQSolve", LSTSQSolve(D), public=False)
    put("LanczosUnary", LanczosUnary(cola.SelfAdjoint(D), np.exp), public=False)
    put("ArnoldiUnary", ArnoldiUnary(D, np.exp), public=False)
    # every further LinearOperator subclass of the live tree (e.g. the Nystrom preconditioners, or a class added
    # later): a bare instance is enough for isinstance-based dispatch; conditions that need more raise -> fail closed
    have = {v[1] for v in out.values()}
    for c in all_subclasses(O.LinearOperator):
        if is_parametrized(c) or c.__name__ in have:
            continue
        obj = object.__new__(c)
        object.__setattr__(obj, "annotations", set())
        object.__setattr__(obj, "shape", (n, n))
        object.__setattr__(obj, "dtype", f64)
        object.__setattr__(obj, "Ms", ())
        out[c.__name__] = (obj, c.__name__, hasattr(O, c.__name__), True)
        have.add(c.__name__)
    return out


# kinds the C19 statement calls structured (matrix-free product proportional to the factors)
STRUCTURED = ["Kronecker", "KronSum", "BlockDiag", "Sum", "Product", "Diagonal", "Identity", "ScalarMul",
              "Permutation", "Tridiagonal"]


def algorithms():
    from cola.linalg.algorithm_base import Algorithm
    out = OrderedDict()
    for c in sorted(all_subclasses(Algorithm), key=lambda c: c.__name__):
        out[c.__name__] = c()
    return out


def others(variant=0):
    o = OrderedDict()
    o["pyint"] = 2 + variant
    o["pyint0"] = 0
    o["pyfloat"] = 2.5 + variant
    o["pycomplex"] = 1j * (1 + variant)
    o["npfloat"] = np.float64(2. + variant)
    o["np0d"] = np.array(2. + variant)
    o["ndarray"] = np.ones((2 + variant, 2 + variant))
    o["strLM"] = "LM"
    o["strSM"] = "SM"
    o["callable"] = np.exp
    return o


OTHER_CLASS = {"pyint": "int", "pyint0": "int", "pyfloat": "float", "pycomplex": "complex", "npfloat": "float64",
               "np0d": "ndarray0d", "ndarray": "ndarray", "strLM": "str", "strSM": "str", "callable": "callable"}


def build_reps(variant=0):
    """OrderedDict name -> Rep, deterministic order: operators (kind-major, annotation variant minor), algorithms, others."""
    reps = OrderedDict()
    for kind, (obj, cls, public, square) in base_operators(variant).items():
        for tag in ANN_VARIANTS:
            name = kind + ("_" + tag if tag else "")
            try:
                o = ann_fn(tag)(obj)
            except Exception:
                if tag == "":
                    raise
                # bare internal instances cannot be re-wrapped through the pytree: copy by hand
                o = object.__new__(type(obj))
                for k, v in vars(obj).items():
                    object.__setattr__(o, k, v)
                object.__setattr__(o, "annotations", set(obj.annotations) | {ann_fn(tag)})
            reps[name] = Rep(name, o, "op", cls, tag, kind, public, square, cls in STRUCTURED)
    for name, a in algorithms().items():
        reps[name] = Rep(name, a, "alg", name)
    for name, v in others(variant).items():
        reps[name] = Rep(name, v, "other", OTHER_CLASS[name])
    return reps


# ---------------------------------------------------------------------------------------------------------------
# Admissible lattice (DESIGN.md Appendix B).  Per public function: the positional parameters, each with the list of
# admissible abstract arguments; `opt` parameters may be passed positionally, by keyword, or omitted.
# `ops(all)` = every operator rep.  Which annotation variants are enumerated is decided by the caller (reduction).
# ---------------------------------------------------------------------------------------------------------------
INV_ALGS = ["Auto", "CG", "GMRES", "LU", "Cholesky"]
PINV_ALGS = ["Auto", "CG", "LSTSQ"]
LOG_ALGS = ["Auto", "Cholesky", "LU", "Lanczos", "Arnoldi"]
TRACE_ALGS = ["Auto", "Exact", "Hutch", "HutchPP"]   # HutchPP is dispatched uniquely and raises NotImplementedError inside its rule (diag)
UNARY_ALGS = ["Auto", "Eig", "Eigh", "Lanczos", "Arnoldi"]
EIG_ALGS = ["Auto", "Eig", "Eigh", "Lanczos", "Arnoldi", "LOBPCG", "PowerIteration"]
SVD_ALGS = ["Auto", "DenseSVD", "Lanczos", "LOBPCG"]
SCALARS = ["pyint", "pyfloat", "pycomplex", "npfloat", "np0d"]

# function -> (list of required parameter choices, list of optional parameter (name, choices)); 'OPS' = operator reps,
# 'OPS+ND' = operator reps and a plain array
LATTICE = OrderedDict([
    ("dot", (["OPS", "OPS"], [])),
    ("add", (["OPS+ND", "OPS+ND"], [])),
    ("kron", (["OPS+ND", "OPS+ND"], [])),
    ("kronsum", (["OPS+ND", "OPS+ND"], [])),
    ("mul", (["OPS", SCALARS], [])),
    ("transpose", (["OPS"], [])),
    ("adjoint", (["OPS"], [])),
    ("get_annotations", (["OPS"], [])),
    ("cholesky", (["OPS"], [])),
    ("plu", (["OPS"], [])),
    ("inv", (["OPS"], [("alg", INV_ALGS)])),
    ("pinv", (["OPS"], [("alg", PINV_ALGS)])),
    ("slogdet", (["OPS"], [("log_alg", LOG_ALGS), ("trace_alg", TRACE_ALGS)])),
    ("diag", (["OPS"], [("k", ["pyint0", "pyint"]), ("alg", TRACE_ALGS)])),
    ("trace", (["OPS"], [("alg", TRACE_ALGS)])),
    ("apply_unary", (["callable", "OPS"], [("alg", UNARY_ALGS)])),
    ("exp", (["OPS"], [("alg", UNARY_ALGS)])),
    ("log", (["OPS"], [("alg", UNARY_ALGS)])),
    ("sqrt", (["OPS"], [("alg", UNARY_ALGS)])),
    ("isqrt", (["OPS"], [("alg", UNARY_ALGS)])),
    ("pow", (["OPS", ["pyint", "pyfloat", "npfloat"]], [("alg", UNARY_ALGS)])),
    ("eig", (["OPS", ["pyint"]], [("which", ["strLM", "strSM"]), ("alg", EIG_ALGS)])),
    ("svd", (["OPS", ["pyint"]], [("which", ["strLM", "strSM"]), ("alg", SVD_ALGS)])),
])

# plain wrappers of the public API that forward to a dispatched function (no rule selection of their own)
WRAPPERS = {"solve": "inv", "logdet": "slogdet", "eigmax": "eig", "eigmin": "eig"}


def public_callable(fn):
    """the object a user calls: cola.<fn>, cola.linalg.<fn>, the svd module's function, or cola.fns.<fn>"""
    import cola.fns
    import cola.linalg
    import cola.annotations
    for ns in (cola, cola.linalg, cola.fns, cola.annotations):
        o = getattr(ns, fn, None)
        if o is not None and callable(o) and not inspect.ismodule(o):
            return o
    # not exported (svd, cholesky, plu, dot, ...): what `from <module> import <fn>` gives = the plum Function, or
    # the `dispatch.abstract` wrapper that binds the defaults when the function was declared abstract
    from plum import dispatch
    f = dispatch.functions[fn]
    return getattr(f, "_abstract", f)
