"""C06 / C11 helpers: invertible and positive-definite operator trees with exact (Gaussian-integer) payloads, builder with
PSD/Unitary declarations and public combinators, reflection of a cola object back into a tree (+ observed annotation
facts), Coq printers for the Gaussian-rational instance QI, LAPACK call recorder, independent numpy oracles."""
import re
from fractions import Fraction
import numpy as np
import shim  # noqa: F401
import trees as T

F64, C128 = "float64", "complex128"
F32, C64 = "float32", "complex64"
EPS = {F64: 2.2e-16, C128: 2.2e-16, F32: 1.2e-7, C64: 1.2e-7}


# ------------------------------------------------------------------ exact numbers
def frac(x):
    """python float / numpy scalar -> Fraction (exact)"""
    return Fraction(float(x))


class CQ:
    """Gaussian rational"""
    __slots__ = ("re", "im")

    def __init__(self, re_=0, im_=0):
        self.re, self.im = Fraction(re_), Fraction(im_)

    @staticmethod
    def of(z):
        if isinstance(z, CQ):
            return z
        z = complex(z)
        return CQ(Fraction(z.real), Fraction(z.imag))

    def __add__(self, o):
        return CQ(self.re + o.re, self.im + o.im)

    def __sub__(self, o):
        return CQ(self.re - o.re, self.im - o.im)

    def __mul__(self, o):
        return CQ(self.re * o.re - self.im * o.im, self.re * o.im + self.im * o.re)

    def conj(self):
        return CQ(self.re, -self.im)

    def __truediv__(self, o):
        d = o.re * o.re + o.im * o.im
        n = self * o.conj()
        return CQ(n.re / d, n.im / d)

    def __eq__(self, o):
        return self.re == o.re and self.im == o.im

    def is_zero(self):
        return self.re == 0 and self.im == 0

    def __complex__(self):
        return complex(float(self.re), float(self.im))


def qnum(z):
    """complex/float/CQ -> Coq term of type qi (exact value)"""
    if isinstance(z, CQ):
        re_, im_ = z.re, z.im
    else:
        z = complex(z)
        re_, im_ = frac(z.real), frac(z.imag)
    if re_.denominator == 1 and im_.denominator == 1:
        return f"(qz ({re_.numerator}) ({im_.numerator}))"
    return f"(qic ({re_.numerator}) {re_.denominator} ({im_.numerator}) {im_.denominator})"


def qg(v):
    return f"(qz ({int(v[0])}) ({int(v[1])}))"


def qrow_g(vs):
    return "[" + ";".join(qg(v) for v in vs) + "]"


def qmat_g(rows):
    return "[" + ";".join(qrow_g(r) for r in rows) + "]"


def qmat(a):
    if isinstance(a, list):   # rows of CQ
        return "[" + ";".join("[" + ";".join(qnum(x) for x in r) + "]" for r in a) + "]"
    a = np.asarray(a)
    if a.ndim == 1:
        a = a.reshape(-1, 1)
    return "[" + ";".join("[" + ";".join(qnum(x) for x in r) + "]" for r in a) + "]"


def lu_rational(a, p):
    """the exact factors of a = (L U)[p, :] with L unit lower triangular (unique for a non-singular a and the pivot order p
    chosen by LAPACK), by elimination without pivoting on the row-permuted matrix over the Gaussian rationals; None if a pivot is 0"""
    n = a.shape[0]
    q = np.argsort(p)
    M = [[CQ.of(a[int(q[i]), j]) for j in range(n)] for i in range(n)]
    Lm = [[CQ(1 if i == j else 0) for j in range(n)] for i in range(n)]
    for c in range(n):
        if M[c][c].is_zero():
            return None
        for i in range(c + 1, n):
            f = M[i][c] / M[c][c]
            Lm[i][c] = f
            for j in range(c, n):
                M[i][j] = M[i][j] - f * M[c][j]
    return Lm, M


def cq_to_np(rows):
    return np.array([[complex(x) for x in r] for r in rows])


def nlist(xs):
    return "[" + ";".join(f"{int(x)}%nat" for x in xs) + "]"


def coq_tree(t):
    """tree -> Coq term of type op (R:=qi)"""
    k = t["k"]
    if k in ("Dense", "Tri"):
        m, n = T.shape(t)
        return f"Dense (qof_list_mn {m} {n} {qmat_g(t['a'])})"
    if k == "Sparse":
        return f"Sparse {t['m']} {t['n']} [" + ";".join(f"({i}%nat,{j}%nat,{qg(v)})" for i, j, v in t["ent"]) + "]"
    if k == "Diag":
        return f"Diag {len(t['d'])} (qof_vec {qrow_g(t['d'])})"
    if k == "Ident":
        return f"Ident {t['n']}"
    if k == "Scal":
        return f"Scal {qg(t['c'])} {t['n']}"
    if k == "Perm":
        return f"Perm {len(t['p'])} (qnvec {nlist(t['p'])})"
    if k == "Tridiag":
        return f"Tridiag {len(t['be'])} (qof_vec {qrow_g(t['al'])}) (qof_vec {qrow_g(t['be'])}) (qof_vec {qrow_g(t['ga'])})"
    if k == "House":
        return f"House {len(t['v'])} (qof_vec {qrow_g(t['v'])}) {qg(t['beta'])}"
    if k in ("Sum", "Prod", "Kron", "KronSum"):
        return f"{k} [" + ";".join("(" + coq_tree(x) + ")" for x in t["ms"]) + "]"
    if k == "BDiag":
        return "BDiag [" + ";".join(f"(({coq_tree(x)}), {mu}%nat)" for x, mu in zip(t["ms"], t["mu"])) + "]"
    if k in ("Transp", "Adj"):
        return f"{k} ({coq_tree(t['a'])})"
    if k == "Sliced":
        return f"Sliced ({coq_tree(t['a'])}) {nlist(t['rs'])} {nlist(t['cs'])}"
    if k == "Concat":
        return "ConcatV [" + ";".join("(" + coq_tree(x) + ")" for x in t["ms"]) + "]"
    if k == "Gen":
        return f"Gen (qof_list_mn {t['n']} {t['n']} [])"   # matrix-free operator: only its shape is looked at
    raise AssertionError(k)


def subs(t):
    return t.get("ms") or ([t["a"]] if isinstance(t.get("a"), dict) else [])


def coq_atree(t):
    """facts observed on the implementation's object at every node"""
    f = t.get("facts", {})
    b = lambda x: "true" if x else "false"
    tri = "None" if t["k"] != "Tri" else f"(Some {b(t['lower'])})"
    return f"(AN {b(f.get('psd'))} {b(f.get('uni'))} {b(f.get('sa'))} {tri} [" + ";".join(coq_atree(x) for x in subs(t)) + "])"


# ------------------------------------------------------------------ building (constructors, declarations, public combinators)
def build(t):
    """tree -> cola operator. Node keys beyond trees.py: 'decl' in {None,'PSD','Unitary','SelfAdjoint'} wraps the node;
    'via' in {'mul','matmul','kron','T','H'} builds the node with the public combinator instead of the constructor."""
    import cola
    from cola import ops
    k = t["k"]
    via = t.get("via")
    if k == "Gen":
        d = np.array([complex(*v) for v in t["d"]])
        d = d if t["dt"] in T.CPLX else d.real
        A = ops.LinearOperator(T.npdt(t["dt"]), (t["n"], t["n"]), matmat=lambda X, d=d: d[:, None] * X)
    elif k in ("Sum", "Prod", "Kron", "KronSum"):
        ms = [build(x) for x in t["ms"]]
        if via == "matmul":
            A = ms[0]
            for M in ms[1:]:
                A = A @ M
        elif via == "mul":   # Prod [Scal c; M]  built as  c * M
            c = complex(*t["ms"][0]["c"])
            A = (c if t["ms"][0]["dt"] in T.CPLX else c.real) * ms[1]
        elif via == "kron":
            A = ms[0]
            for M in ms[1:]:
                A = cola.kron(A, M)
        elif via == "add":
            A = ms[0]
            for M in ms[1:]:
                A = A + M
        else:
            cls = dict(Sum=ops.Sum, Prod=ops.Product, Kron=ops.Kronecker, KronSum=ops.KronSum)[k]
            A = cls(*ms)
    elif k == "BDiag":
        A = ops.BlockDiag(*[build(x) for x in t["ms"]], multiplicities=list(t["mu"]))
    elif k == "Transp":
        B = build(t["a"])
        A = B.T if via == "T" else ops.Transpose(B)
    elif k == "Adj":
        B = build(t["a"])
        A = B.H if via == "H" else ops.Adjoint(B)
    elif k == "Sliced":
        B = build(t["a"])
        A = ops.Sliced(B, (T.range_slice(t["rs"]), T.range_slice(t["cs"])))
    elif k == "Concat":
        A = ops.Concatenated(*[build(x) for x in t["ms"]], axis=0)
    else:
        A = T.build(t)
    d = t.get("decl")
    if d:
        A = dict(PSD=cola.PSD, Unitary=cola.Unitary, SelfAdjoint=cola.SelfAdjoint)[d](A)
    return A


def gauss(a):
    return T.to_gauss(np.asarray(a))


def reflect(A):
    """cola operator -> tree with the facts observed on every node (class structure, payloads, annotations)"""
    import cola
    from cola import ops
    dt = str(np.dtype(A.dtype))
    cls = type(A)
    name = cls.__name__.split("[")[0]
    t = None
    if isinstance(A, ops.Triangular):
        t = dict(k="Tri", dt=dt, a=gauss(A.A), lower=bool(A.lower))
    elif isinstance(A, ops.Dense):
        t = dict(k="Dense", dt=dt, a=gauss(A.A))
    elif name == "Diagonal":
        t = dict(k="Diag", dt=dt, d=gauss(A.diag))
    elif name == "Identity":
        t = dict(k="Ident", dt=dt, n=A.shape[0])
    elif name == "ScalarMul":
        t = dict(k="Scal", dt=dt, c=gauss(np.asarray(A.c).reshape(1))[0], n=A.shape[0])
    elif name == "Permutation":
        t = dict(k="Perm", dt=dt, p=[int(x) for x in np.asarray(A.perm)])
    elif name == "Tridiagonal":
        t = dict(k="Tridiag", dt=dt, al=gauss(np.asarray(A.alpha).reshape(-1)), be=gauss(np.asarray(A.beta).reshape(-1)), ga=gauss(np.asarray(A.gamma).reshape(-1)))
    elif name == "Householder":
        t = dict(k="House", dt=dt, v=gauss(np.asarray(A.vec).reshape(-1)), beta=gauss(np.asarray(A.beta).reshape(1))[0])
    elif name == "Sparse":
        t = dict(k="Sparse", dt=dt, m=A.shape[0], n=A.shape[1],
                 ent=[[int(i), int(j), v] for i, j, v in zip(A.row_indices, A.col_indices, gauss(A.data))])
    elif name in ("Product", "Sum", "Kronecker", "KronSum"):
        t = dict(k=dict(Product="Prod", Sum="Sum", Kronecker="Kron", KronSum="KronSum")[name], ms=[reflect(M) for M in A.Ms])
    elif name == "BlockDiag":
        t = dict(k="BDiag", ms=[reflect(M) for M in A.Ms], mu=[int(m) for m in A.multiplicities])
    elif name == "Transpose":
        t = dict(k="Transp", a=reflect(A.A))
    elif name == "Adjoint":
        t = dict(k="Adj", a=reflect(A.A))
    elif name == "Sliced":
        def idx(s, n):
            return list(range(*s.indices(n))) if isinstance(s, slice) else [int(x) for x in s]
        t = dict(k="Sliced", a=reflect(A.A), rs=idx(A.slices[0], A.A.shape[0]), cs=idx(A.slices[1], A.A.shape[1]))
    elif name == "Concatenated":
        t = dict(k="Concat", axis=int(A.axis), ms=[reflect(M) for M in A.Ms])
    elif name == "LinearOperator":
        t = dict(k="Gen", dt=dt, n=A.shape[0])
    else:
        raise ValueError("reflect: unknown class " + name)
    t["facts"] = dict(psd=bool(A.isa(cola.PSD)), uni=bool(A.isa(cola.Unitary)), sa=bool(A.isa(cola.SelfAdjoint)))
    return t


OPCODE = dict(Dense=0, Triangular=0, Diagonal=1, Identity=2, ScalarMul=3, Sum=4, Product=5, Kronecker=6, BlockDiag=7, Transpose=8,
              Adjoint=9, LinearOperator=10, Permutation=11, Tridiagonal=12, Householder=13, Sparse=14, KronSum=15, Sliced=16, Concatenated=17)


def rty(B):
    """class structure of a returned operator as a Coq term of type rty"""
    name = type(B).__name__.split("[")[0]
    if name == "TriangularInv":
        return "TTriInv"
    if name == "IterativeOperatorWInfo":
        return "TIterCG" if type(B.alg).__name__ == "CG" else ("TIterGMRES" if type(B.alg).__name__ == "GMRES" else "TOp 99")
    if name == "Product":
        return "TProd [" + ";".join(rty(M) for M in B.Ms) + "]"
    if name == "Kronecker":
        return "TKron [" + ";".join(rty(M) for M in B.Ms) + "]"
    if name == "BlockDiag":
        return "TBDiag [" + ";".join(rty(M) for M in B.Ms) + "]"
    return f"TOp {OPCODE.get(name, 98)}"


def type_str(B):
    return re.sub(r"cola\.[a-z_.]*\.", "", type(B).__name__)


# ------------------------------------------------------------------ LAPACK recorder
class Recorder:
    """records the inputs/outputs of the backend's lu / cholesky while the implementation runs"""

    def __init__(self):
        from cola.backends import np_fns
        self.np_fns = np_fns
        self.lu, self.chol = [], []

    def __enter__(self):
        f = self.np_fns
        self._lu, self._chol = f.lu, f.cholesky

        def lu(a):
            out = self._lu(a)
            self.lu.append((np.array(a), tuple(np.array(x) for x in out)))
            return out

        def cholesky(a):
            out = self._chol(a)
            self.chol.append((np.array(a), np.array(out)))
            return out
        f.lu, f.cholesky = lu, cholesky
        return self

    def __exit__(self, *a):
        self.np_fns.lu, self.np_fns.cholesky = self._lu, self._chol


def fmat(a):
    return [[(frac(np.real(x)), frac(np.imag(x))) for x in r] for r in np.asarray(a)]


def fmul(A, B):
    n, k, m = len(A), len(B), len(B[0]) if B else 0
    out = []
    for i in range(n):
        row = []
        for j in range(m):
            re_ = sum((A[i][l][0] * B[l][j][0] - A[i][l][1] * B[l][j][1] for l in range(k)), Fraction(0))
            im_ = sum((A[i][l][0] * B[l][j][1] + A[i][l][1] * B[l][j][0] for l in range(k)), Fraction(0))
            row.append((re_, im_))
        out.append(row)
    return out


def lu_exact(a, p, L, U):
    """is P L U = A exactly (as rationals)?"""
    LU = fmul(fmat(L), fmat(U))
    A = fmat(a)
    return all(LU[int(p[i])] == A[i] for i in range(len(A)))   # a = (L U)[p, :]


def chol_exact(a, L):
    Lf = fmat(L)
    LH = [[(Lf[j][i][0], -Lf[j][i][1]) for j in range(len(Lf))] for i in range(len(Lf))]
    return fmul(Lf, LH) == fmat(a)


# ------------------------------------------------------------------ generators
class GenInv:
    """well-conditioned invertible operator trees from integer unimodular / triangular / diagonal / permutation factors"""

    def __init__(self, rnd, present=(), kappa=1e3, maxn=6):
        self.r, self.present, self.kappa, self.maxn = rnd, set(present), kappa, maxn
        self.single = False   # draw float32 / complex64 payloads

    def graded(self, n, posreal=True, cplx=False):
        """n values over many orders of magnitude, exactly representable in every float format: signed / unit-multiplied powers of 4
        (their reciprocals and square roots are exact too); the spread is far above 10*eps*max of the dtype"""
        r = self.r
        kmax = 11 if self.single else 30
        ks = [kmax] + [r.choice([0, 0, 1, 2, r.randint(0, kmax)]) for _ in range(n - 1)]
        r.shuffle(ks)
        out = []
        for k in ks:
            u = [1, 0] if posreal else self.unit(cplx)
            out.append([u[0] * 4 ** k, u[1] * 4 ** k])
        return out

    def val(self, cplx, lo=-3, hi=3, nz=False):
        r = self.r
        while True:
            v = [r.randint(lo, hi), r.randint(-2, 2) if cplx and r.random() < 0.6 else 0]
            if not nz or v != [0, 0]:
                return v

    def unit(self, cplx):
        return self.r.choice([[1, 0], [-1, 0]] + ([[0, 1], [0, -1]] if cplx else []))

    def unimod(self, n, cplx):
        r = self.r
        for _ in range(50):
            M = np.eye(n, dtype=complex)
            for _ in range(r.randint(n, 2 * n + 1)):
                i, j = r.randrange(n), r.randrange(n)
                if i != j:
                    M[i] += complex(*self.val(cplx, -2, 2)) * M[j]
                else:
                    M[i] *= complex(*self.unit(cplx))
            if np.abs(M).max() <= 9 and np.linalg.cond(M) <= self.kappa:
                return M
        return np.eye(n, dtype=complex)

    def gmat(self, M):
        return [[[int(round(x.real)), int(round(x.imag))] for x in row] for row in np.asarray(M, dtype=complex)]

    def dt(self, cplx):
        if self.single:
            return C64 if cplx else F32
        return C128 if cplx else F64

    def graded_tree(self, n, depth, cplx, posreal=False):
        """entry-wise exact invertible tree: graded Diagonal / ScalarMul, Identity, Permutation leaves under Kronecker, BlockDiag and square Products;
        its dense form is a generalised permutation matrix"""
        r = self.r
        dt = self.dt(cplx)
        if depth <= 0 or r.random() < 0.3:
            k = r.choice(["Diag", "Diag", "Diag", "Scal", "Ident"] + ([] if posreal else ["Perm"]))
            if k == "Diag":
                return dict(k="Diag", dt=dt, d=self.graded(n, posreal, cplx))
            if k == "Scal":
                return dict(k="Scal", dt=dt, c=self.graded(1, posreal, cplx)[0], n=n)
            if k == "Ident":
                return dict(k="Ident", dt=dt, n=n)
            p = list(range(n))
            r.shuffle(p)
            return dict(k="Perm", dt=dt, p=p)
        k = r.choice(["Kron", "BDiag"] + ([] if posreal else ["Prod"])) if n >= 2 else "BDiag"
        d = depth - 1
        if k == "Kron":
            divs = [a for a in range(1, n + 1) if n % a == 0]
            a = r.choice(divs)
            return dict(k="Kron", ms=[self.graded_tree(a, d, cplx, posreal), self.graded_tree(n // a, d, cplx, posreal)])
        if k == "Prod":
            return dict(k="Prod", ms=[self.graded_tree(n, d, cplx, posreal), self.graded_tree(n, d, cplx, posreal)])
        parts, left = [], n
        while left > 0:
            s_ = r.randint(1, min(left, 3))
            mu = r.randint(1, max(1, min(2, left // s_)))
            parts.append((s_, mu))
            left -= s_ * mu
        return dict(k="BDiag", ms=[self.graded_tree(s_, d, cplx, posreal) for s_, _ in parts], mu=[mu for _, mu in parts])

    def lower(self, n, cplx, posdiag=False):
        L = np.zeros((n, n), dtype=complex)
        for i in range(n):
            for j in range(i):
                L[i, j] = complex(*self.val(cplx, -2, 2))
            L[i, i] = self.r.choice([1, 1, 2]) if posdiag else complex(*self.r.choice([[1, 0], [-1, 0], [2, 0], [-2, 0]] + ([[0, 1], [1, 1]] if cplx else [])))
        return L

    def leaf(self, n, cplx):
        r = self.r
        dt = self.dt(cplx)
        opts = ["Dense", "Dense", "DenseD", "Tri", "Tri", "Diag", "Scal", "Ident", "Perm", "Tridiag", "Sparse", "House"]
        k = r.choice(opts)
        if k == "Dense":
            return dict(k="Dense", dt=dt, a=self.gmat(self.unimod(n, cplx)))
        if k == "DenseD":   # non-unit determinant: rational inverse
            d = np.diag([complex(*r.choice([[1, 0], [2, 0], [-2, 0], [3, 0], [4, 0]])) for _ in range(n)])
            return dict(k="Dense", dt=dt, a=self.gmat(self.unimod(n, cplx) @ d))
        if k == "Tri":
            L = self.lower(n, cplx)
            lower = r.random() < 0.5
            return dict(k="Tri", dt=dt, a=self.gmat(L if lower else L.T), lower=lower)
        if k == "Diag":
            return dict(k="Diag", dt=dt, d=[self.val(cplx, -4, 4, nz=True) for _ in range(n)])
        if k == "Scal":
            return dict(k="Scal", dt=dt, c=self.val(cplx, -4, 4, nz=True), n=n)
        if k == "Ident":
            return dict(k="Ident", dt=dt, n=n)
        if k == "Perm":
            p = list(range(n))
            r.shuffle(p)
            return dict(k="Perm", dt=dt, p=p)
        if k == "Tridiag":
            return dict(k="Tridiag", dt=dt, al=[self.val(cplx, -1, 1) for _ in range(n - 1)],
                        be=[[r.choice([3, 4, -3, -4]), 0] for _ in range(n)], ga=[self.val(cplx, -1, 1) for _ in range(n - 1)])
        if k == "Sparse":
            p = list(range(n))
            r.shuffle(p)
            return dict(k="Sparse", dt=dt, m=n, n=n, ent=[[i, p[i], self.val(cplx, -3, 3, nz=True)] for i in range(n)])
        if k == "House":
            return dict(k="House", dt=dt, v=[self.val(cplx, -1, 1) for _ in range(n)], beta=[r.choice([2, -1, 1, 3]), 0])
        raise AssertionError(k)

    def tree(self, n, depth, cplx):
        """n x n invertible tree"""
        r = self.r
        if depth <= 0 or r.random() < 0.2:
            return self.leaf(n, cplx)
        opts = ["Prod", "Prod", "Sum", "Transp", "Adj", "BDiag", "leaf", "Scaled"]
        if n >= 2:
            opts += ["Kron", "Kron", "BDiag", "ProdNS", "Sliced", "Concat"]
        k = r.choice(opts)
        d = depth - 1
        if k == "leaf":
            return self.leaf(n, cplx)
        if k == "Scaled":   # c * A  and  A * c  (the most common way to write a scalar multiple)
            sc = dict(k="Scal", dt=self.dt(cplx), c=self.val(cplx, -3, 3, nz=True), n=n)
            return dict(k="Prod", ms=[sc, self.tree(n, d, cplx)], via=("mul" if r.random() < 0.6 else None))
        if k == "Prod":
            ms = [self.tree(n, d, cplx) for _ in range(r.randint(2, 3))]
            via = None
            if r.random() < 0.3 and not ("dot_identity_ambiguous" in self.present and any(m["k"] == "Ident" for m in ms)):
                via = "matmul"
            elif r.random() < 0.25:   # c * A
                ms = [dict(k="Scal", dt=self.dt(cplx), c=self.val(cplx, -3, 3, nz=True), n=n), ms[0]]
                via = "mul"
            return dict(k="Prod", ms=ms, via=via)
        if k == "ProdNS":   # invertible product of non-square factors: (n x m)(m x n)
            m = n + r.randint(1, 2)
            U = self.unimod(m, cplx)
            Ui = np.rint(np.linalg.inv(U).real) + 1j * np.rint(np.linalg.inv(U).imag)
            V = self.unimod(n, cplx)
            return dict(k="Prod", ms=[dict(k="Dense", dt=self.dt(cplx), a=self.gmat((V @ U[:n, :]))), dict(k="Dense", dt=self.dt(cplx), a=self.gmat(Ui[:, :n]))])
        if k == "Sum":
            A = self.tree(n, d, cplx)
            c = r.choice([1, 2, 3])
            B = r.choice([A, dict(k="Scal", dt=self.dt(cplx), c=[c, 0], n=n), dict(k="Ident", dt=self.dt(cplx), n=n)])
            return dict(k="Sum", ms=[A, B], via=("add" if r.random() < 0.3 else None))
        if k in ("Transp", "Adj"):
            return dict(k=k, a=self.tree(n, d, cplx), via=(dict(Transp="T", Adj="H")[k] if r.random() < 0.4 else None))
        if k == "Kron":
            divs = [a for a in range(1, n + 1) if n % a == 0]
            a = r.choice(divs)
            rest = n // a
            sizes = [a, rest]
            if rest >= 4 and rest % 2 == 0 and r.random() < 0.5:
                sizes = [a, 2, rest // 2]
            r.shuffle(sizes)
            return dict(k="Kron", ms=[self.tree(s, d, cplx) for s in sizes], via=("kron" if r.random() < 0.3 else None))
        if k == "BDiag":
            parts, left = [], n
            while left > 0:
                s = r.randint(1, min(left, 3))
                mu = r.randint(1, max(1, min(2, left // s)))
                parts.append((s, mu))
                left -= s * mu
            return dict(k="BDiag", ms=[self.tree(s, d, cplx) for s, _ in parts], mu=[mu for _, mu in parts])
        if k == "Sliced":
            N = n + r.randint(0, 2)
            rs = sorted(r.sample(range(N), n))
            cs = sorted(r.sample(range(N), n))
            if T.range_slice(rs) is None or T.range_slice(cs) is None:
                rs = cs = list(range(n))
            big = np.zeros((N, N), dtype=complex)
            for i in range(N):
                for j in range(N):
                    big[i, j] = complex(*self.val(cplx, -2, 2))
            big[np.ix_(rs, cs)] = self.unimod(n, cplx)
            return dict(k="Sliced", a=dict(k="Dense", dt=self.dt(cplx), a=self.gmat(big)), rs=rs, cs=cs)
        if k == "Concat":
            M = self.unimod(n, cplx)
            h = n // 2 if n % 2 == 0 else n
            parts = [M[i:i + h] for i in range(0, n, h)]
            return dict(k="Concat", axis=0, ms=[dict(k="Dense", dt=self.dt(cplx), a=self.gmat(P)) for P in parts])
        raise AssertionError(k)

    # ---- positive definite trees
    def psd_leaf(self, n, cplx, decl):
        r = self.r
        dt = self.dt(cplx)
        k = r.choice(["Dense", "Dense", "Dense", "Diag", "Scal", "Ident"])
        if k == "Dense":
            L = self.lower(n, cplx, posdiag=True)
            t = dict(k="Dense", dt=dt, a=self.gmat(L @ L.conj().T))
        elif k == "Diag":
            t = dict(k="Diag", dt=dt, d=[[r.choice([1, 2, 4, 9]), 0] for _ in range(n)])
        elif k == "Scal":
            t = dict(k="Scal", dt=dt, c=[r.choice([1, 2, 4]), 0], n=n)
        else:
            t = dict(k="Ident", dt=dt, n=n)
        if decl and k != "Ident":
            t["decl"] = "PSD"
        return t

    def psd_tree(self, n, depth, cplx, decl=True):
        """Hermitian positive definite tree; decl: declare PSD on the leaves (composites inherit it)"""
        r = self.r
        if depth <= 0 or r.random() < 0.3:
            return self.psd_leaf(n, cplx, decl)
        opts = ["Sum", "BDiag", "Transp", "Gram"] + (["Kron", "Kron"] if n >= 2 else [])
        k = r.choice(opts)
        d = depth - 1
        if k == "Sum":
            return dict(k="Sum", ms=[self.psd_tree(n, d, cplx, decl), self.psd_tree(n, d, cplx, decl)], via=("add" if r.random() < 0.4 else None))
        if k == "Transp":
            t = dict(k=r.choice(["Transp", "Adj"]), a=self.psd_tree(n, d, cplx, decl))
            if decl:
                t["decl"] = "PSD"
            return t
        if k == "Gram":   # B B^H, declared
            B = dict(k="Dense", dt=self.dt(cplx), a=self.gmat(self.unimod(n, cplx)))
            BH = dict(k="Dense", dt=self.dt(cplx), a=self.gmat(np.array([[complex(*v) for v in row] for row in B["a"]]).conj().T))
            t = dict(k="Prod", ms=[B, BH])
            if decl:
                t["decl"] = "PSD"
            return t
        if k == "Kron":
            divs = [a for a in range(1, n + 1) if n % a == 0]
            a = r.choice(divs)
            return dict(k="Kron", ms=[self.psd_tree(a, d, cplx, decl), self.psd_tree(n // a, d, cplx, decl)])
        if k == "BDiag":
            parts, left = [], n
            while left > 0:
                s = r.randint(1, min(left, 3))
                mu = r.randint(1, max(1, min(2, left // s)))
                parts.append((s, mu))
                left -= s * mu
            return dict(k="BDiag", ms=[self.psd_tree(s, d, cplx, decl) for s, _ in parts], mu=[mu for _, mu in parts])
        raise AssertionError(k)

    # ---- unitary trees
    def uni_tree(self, n, depth, cplx):
        r = self.r
        dt = self.dt(cplx)
        if depth <= 0 or r.random() < 0.4 or n < 2:
            k = r.choice(["Dense", "Dense", "Perm", "Diag"])
            p = list(range(n))
            r.shuffle(p)
            if k == "Perm":
                return dict(k="Perm", dt=dt, p=p)
            if k == "Diag":
                return dict(k="Diag", dt=dt, d=[self.unit(cplx) for _ in range(n)], decl="Unitary")
            M = np.zeros((n, n), dtype=complex)
            for i in range(n):
                M[i, p[i]] = complex(*self.unit(cplx))
            return dict(k="Dense", dt=dt, a=self.gmat(M), decl="Unitary")
        k = r.choice(["Kron", "Prod", "Transp", "Sum0"])
        d = depth - 1
        if k == "Kron":
            divs = [a for a in range(1, n + 1) if n % a == 0]
            a = r.choice(divs)
            return dict(k="Kron", ms=[self.uni_tree(a, d, cplx), self.uni_tree(n // a, d, cplx)])
        if k == "Prod":
            return dict(k="Prod", ms=[self.uni_tree(n, d, cplx), self.uni_tree(n, d, cplx)])
        if k == "Transp":
            return dict(k=r.choice(["Transp", "Adj"]), a=self.uni_tree(n, d, cplx), decl="Unitary")
        # a Sum that is unitary: U + 0*U, declared
        U = self.uni_tree(n, 0, cplx)
        Z = dict(k="Dense", dt=dt, a=[[[0, 0]] * n for _ in range(n)])
        return dict(k="Sum", ms=[U, Z], decl="Unitary")


def has_scal_below_prod(t, below=False):
    if t["k"] == "Scal" and below:
        return True
    b = below or t["k"] == "Prod"
    return any(has_scal_below_prod(x, b) for x in subs(t))


def kinds(t):
    return T.kinds_of(t)


def gperm_inv(D):
    """exact inverse of a generalised permutation matrix (one non-zero per row and column), else None"""
    D = np.asarray(D)
    nz = D != 0
    if D.shape[0] != D.shape[1] or not (np.all(nz.sum(0) == 1) and np.all(nz.sum(1) == 1)):
        return None
    out = np.zeros_like(D, dtype=complex)
    for i, j in zip(*np.nonzero(nz)):
        out[j, i] = 1 / D[i, j]
    return out
