"""regenerate the table and the Score paragraph of DESIGN.md section 9 from seeded/*/meta.json"""
import subprocess, json, glob, os
from collections import Counter
p = '/verif/DESIGN.md'
s = open(p).read()
table = subprocess.check_output(['python3', '/verif/harness/seeds_table.py'], text=True)
i = s.index("| seed | round | change | needs, to manifest | verdict of the check |")
k = s.index("In addition ~40 one-line mutants")
rows = [json.load(open(f)) for f in sorted(glob.glob('/verif/seeded/*/meta.json'))]
def cls(m):
    v = m["verdict"]
    if m.get("status"):
        return "obsolete"
    if v.startswith("MISSED") or "MISSED at first" in v[:70] or "MISSED by C01 at first" in v:
        return "missed"
    if (v.startswith("reported at first") or "at first only as" in v[:90] or v.startswith("caught thinly") or v.startswith("caught by a single")
            or v.startswith("caught by 2 cases") or v.startswith("caught by 3 cases") or v.startswith("caught after")):
        return "thin"
    return "caught"
rounds = sorted({m.get("round", 1) for m in rows})
cnt = {r: Counter(cls(m) for m in rows if m.get("round", 1) == r) for r in rounds}
per = "; ".join(f"round {r}: {sum(cnt[r].values())} seeds - {cnt[r]['caught'] + cnt[r]['obsolete']} caught from the start, {cnt[r]['missed']} missed, "
                f"{cnt[r]['thin']} caught only thinly or without a failing input at first" for r in rounds)
nobs = sum(1 for m in rows if m.get("status"))
score = f'''**Score.** {len(rows)} seeded changes in {len(rounds)} rounds, all confirmed when made (demo exits 0 unchanged / 1 patched, identical
PASSED set). {per}. Every miss and every thin catch led to a strengthening of the check (column "verdict"), after
which all of them are caught with concrete failing inputs on seeds 0 and 1. {nobs} seeds are **obsolete** on the repaired
tree (marked in the table: a later `fix:` commit removed the cooperating defect they needed, the patched code no longer
breaks the property and the demo exits 0); they are kept for the record. Stored patches that stopped applying after
`fix:` commits were re-created by hand on the new HEAD and re-confirmed. `harness/seed_regress.sh` re-applies every
stored seed to a scratch worktree at `/repo` HEAD and re-runs its check; the logs of the last runs are kept as
`seeded/REGRESSION_*.txt` and summarised at the end of this section.

'''
s = s[:i] + table + "\n" + score + s[k:]
open(p, 'w').write(s)
print(cnt)
