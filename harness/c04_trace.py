"""C04/C19: observe rule selection on the real code.  Harness-side instrumentation of plum's Function.__call__
(nothing in /repo is touched): every dispatched call is logged with its nesting depth, the caller's selected
signature, the selected signature (through plum's own resolve_method) or the lookup error."""
import signal
from contextlib import contextmanager


class Record:
    __slots__ = ("fn", "args", "kw", "depth", "sig", "err", "parent", "function")

    def __init__(self, fn, args, kw, depth, parent, function):
        self.fn, self.args, self.kw, self.depth, self.parent, self.function = fn, args, kw, depth, parent, function
        self.sig, self.err = None, None


@contextmanager
def tracing():
    from plum.function import Function
    log, stack = [], []
    orig = Function.__call__

    def traced(self, *args, **kw):
        rec = Record(self.__name__, args, kw, len(stack), stack[-1] if stack else None, self)
        log.append(rec)
        try:
            _, _, sig = self.resolve_method(args)
            rec.sig = sig
        except LookupError as e:
            rec.err = type(e).__name__
        except Exception as e:  # a condition lambda raised
            rec.err = type(e).__name__
        stack.append(rec)
        try:
            return orig(self, *args, **kw)
        finally:
            stack.pop()

    Function.__call__ = traced
    try:
        yield log
    finally:
        Function.__call__ = orig


class Timeout(BaseException):
    pass


@contextmanager
def time_limit(seconds):
    def handler(signum, frame):
        raise Timeout()
    old = signal.signal(signal.SIGALRM, handler)
    signal.setitimer(signal.ITIMER_REAL, seconds)
    try:
        yield
    finally:
        signal.setitimer(signal.ITIMER_REAL, 0)
        signal.signal(signal.SIGALRM, old)


def run_traced(f, args, kwargs, seconds=3.0):
    """returns (log, exception class name or None, message)"""
    with tracing() as log:
        try:
            with time_limit(seconds):
                out = f(*args, **kwargs)
                # lazy results: touch them so that nested dispatches of the product happen too
                del out
            return log, None, ""
        except Timeout:
            return log, "Timeout", ""
        except Exception as e:  # noqa
            return log, type(e).__name__, str(e)[:300]
