"""C17, parts A/C: histories of user draws interleaved with cola's randomised routines.
 * a cola-free reference run builds the generator tables (state digests, block digests);
 * the implementation run records the state digest after every event, what the user saw, probe blocks, results;
 * the Coq machine of coq/C17_Rng.v (instantiated on the tables, C17_RngExec.v) predicts all of it; compared inside Coq."""
import hashlib, re
import numpy as np
import shim  # noqa: F401
import cola
from cola import ops
from cola.linalg.trace.diagonal_estimation import hutchinson_diag_estimate, Hutch
from cola.linalg.tbd.slq import stochastic_lanczos_quad
from cola.linalg.tbd.randomized_svd import randomized_svd
from cola.linalg.decompositions.lanczos import lanczos
from cola.linalg.decompositions.arnoldi import arnoldi
from cola.linalg.eig.power_iteration import power_iteration
from cola.linalg.eig.lobpcg import lobpcg
from cola.linalg.preconditioning.preconditioners import NystromPrecond, AdaNysPrecond, select_rank_adaptively
from cola.linalg import Lanczos, Arnoldi, PowerIteration, LOBPCG
import core
from c17_hutch import sha_hash, Recorder

HEADER = ("From Coq Require Import List ZArith Bool.\nFrom Core Require Import C17_Rng C17_RngExec.\n"
          "Import ListNotations.\nOpen Scope Z_scope.\n")


def hz(b):
    return int(hashlib.sha1(b).hexdigest()[:15], 16)


def state_digest():
    s = np.random.get_state()
    return hz(s[1].tobytes() + repr((s[0], int(s[2]), int(s[3]), float(s[4]).hex())).encode())


def arr_digest(*xs):
    h = hashlib.sha1()
    for x in xs:
        a = np.ascontiguousarray(np.asarray(x))
        h.update(str(a.dtype).encode() + a.tobytes())
    return int(h.hexdigest()[:15], 16)


def flat_digest(x, dt=None):
    """digest of the values (row-major, dtype included), so that randn(n, bs) and randn(n*bs) agree; `dt`: the block as
    randn(..., dtype=dt) returns it (cast of the float64 draw)"""
    a = np.asarray(x)
    if dt is not None:
        a = a.astype(dt)
    return arr_digest(np.ascontiguousarray(a).ravel())


DTS = ("float64", "float32", "complex128", "complex64")


def psd(seed, n, dt="float64"):
    """Hermitian positive definite, small Gaussian-integer entries (exact in every dtype)"""
    rs = np.random.RandomState(seed)
    M = rs.randint(-3, 4, size=(n, n)).astype(np.float64)
    if np.dtype(dt).kind == "c":
        M = M + 1j * rs.randint(-2, 3, size=(n, n))
    return (M @ M.conj().T + n * np.eye(n)).astype(dt)


def gen_mat(seed, n, dt="float64"):
    rs = np.random.RandomState(seed)
    G = rs.randint(-4, 5, size=(n, n)).astype(np.float64) + np.eye(n)
    if np.dtype(dt).kind == "c":
        G = G + 1j * rs.randint(-2, 3, size=(n, n))
    return G.astype(dt)


KINDS = ("randn", "rand", "normal")
SITES = ("hutch", "hutch_diag", "hutch_trace", "slq", "lanczos", "arnoldi", "power", "nystrom", "adanys", "selrank", "rsvd",
         "eig_lanczos", "eig_arnoldi", "eig_power", "logdet", "expm", "lobpcg", "eig_lobpcg", "svd_lanczos", "svd_lobpcg", "eigmax_auto",
         "sqrt_lanczos", "eigmax_power", "inv_cg", "inv_gmres")
# sites that draw through randn without a key (np_fns logs a warning): key parameter absent or passed through as None
UNKEYED = ("adanys", "selrank", "rsvd")
LOB = ("lobpcg", "eig_lobpcg", "svd_lobpcg")


def gen_history(rnd, length, sites):
    h = []
    ns = [rnd.randint(3, 6) for _ in range(2)]          # few sizes / dtypes per history, so that a reused algorithm object
    dts = [rnd.choice(DTS) for _ in range(2)]           # meets operators of the same size and dtype again
    for i in range(length):
        u = rnd.random()
        if u < 0.30:
            h.append(dict(e="udraw", kind=rnd.randrange(3), c=rnd.randint(1, 5)))
        elif u < 0.38:
            h.append(dict(e="useed", k=rnd.randint(0, 2 ** 31)))
        elif u < 0.45 and i > 0:
            h.append(dict(e="uset", j=rnd.randrange(i)))
        else:
            site = rnd.choice(sites)
            h.append(dict(e="cola", site=site, n=rnd.choice(ns), mseed=rnd.choice([7, rnd.randint(0, 10 ** 6)]),
                          reuse=rnd.random() < 0.7,
                          key=None if rnd.random() < 0.35 else rnd.randint(0, 2 ** 31),
                          k=rnd.choice([0, 0, 1, -1]), max_iters=rnd.randint(1, 4), tol=rnd.choice([0.02, 0.1, 0.5]),
                          rank=rnd.randint(1, 2), dt=rnd.choice(dts)))
    return h


def user_event(e, saved):
    """executes a user event on the global generator; returns the payload digests"""
    if e["e"] == "udraw":
        c = e["c"]
        z = [np.random.randn, np.random.rand, lambda n: np.random.normal(size=n)][e["kind"]](c)
        return [flat_digest(z)]
    if e["e"] == "useed":
        np.random.seed(e["k"])
        return []
    if e["e"] == "uset":
        np.random.set_state(saved[e["j"]])
        return []
    raise AssertionError(e)


def code(c, kind=0, dt="float64"):
    """the argument of the abstract stream: how many numbers, which numpy routine (randn / rand / normal), and the dtype
    randn casts the block to"""
    return (4 * c + DTS.index(dt)) * 3 + kind


def call_site(e, start=None, algs=None):
    """runs one cola routine (public API). Returns (payload digests, number of probe blocks).
    `algs`: the algorithm objects of this history (dict, filled on demand): an event with reuse=True takes its Algorithm
    instance from there - the same object that earlier events used - instead of constructing a fresh one."""
    site, n, key = e["site"], e["n"], e["key"]

    def alg(cls, **kw):
        if algs is None or not e.get("reuse"):
            return cls(**kw)
        k = (cls.__name__, tuple(sorted(kw.items())))
        if k not in algs:
            algs[k] = cls(**kw)
        return algs[k]
    dt = e.get("dt", "float64")
    S = psd(e["mseed"], n, dt)
    G = gen_mat(e["mseed"], n, dt)
    P = cola.PSD(ops.Dense(S))
    ones = np.ones(n, dtype=dt)
    if site in ("hutch", "hutch_diag", "hutch_trace"):
        rec = Recorder(ops.Dense(G))
        if site == "hutch":
            out, _ = hutchinson_diag_estimate(rec.op, e["k"], tol=e["tol"], max_iters=e["max_iters"], key=key)
        elif site == "hutch_diag":
            out = cola.linalg.diag(rec.op, e["k"], alg(Hutch, tol=e["tol"], max_iters=e["max_iters"], key=key))
        else:
            out = cola.linalg.trace(rec.op, alg(Hutch, tol=e["tol"], max_iters=e["max_iters"], key=key))
        return [flat_digest(z) for z in rec.seen] + [arr_digest(out)], len(rec.seen)
    if site == "slq":
        return [arr_digest(stochastic_lanczos_quad(P, np.log, max_iters=n, vtol=0.5, key=key))], 0
    if site == "lanczos":
        kw = dict(start_vector=start) if start is not None else dict(key=key)
        Q, T, _ = lanczos(P, max_iters=n, **kw)
        return [arr_digest(Q.to_dense(), T.to_dense())], 0
    if site == "arnoldi":
        kw = dict(start_vector=start) if start is not None else dict(key=key)
        Q, Hm, _ = arnoldi(ops.Dense(G), max_iters=n - 1, **kw)
        return [arr_digest(Q.to_dense(), Hm.to_dense())], 0
    if site == "power":
        rec = Recorder(P)
        v, em, _ = power_iteration(rec.op, tol=1e-3, max_iter=10, key=key)
        return [flat_digest(rec.seen[0]), arr_digest(v, em)], 0
    if site == "nystrom":
        N = NystromPrecond(P, rank=e["rank"], key=key)
        return [arr_digest(N.to_dense())], 0
    if site == "adanys":
        N = AdaNysPrecond(P, rank=e["rank"], bounds=(0.1, 0.5, 1e6))
        return [arr_digest(N.to_dense())], 0
    if site == "selrank":
        Lam, U, rank = select_rank_adaptively(P, e["rank"], n, tol=1e-2)
        return [arr_digest(Lam, U, np.array(rank))], 0
    if site == "rsvd":
        Sg, U, V = randomized_svd(ops.Dense(G), e["rank"] + 1)
        return [arr_digest(Sg, U, V)], 0
    if site == "eig_lanczos":
        w, V = cola.linalg.eig(P, n - 1, "LM", alg(Lanczos, max_iters=n))
        return [arr_digest(w, V.to_dense())], 0
    if site == "eig_arnoldi":
        w, V = cola.linalg.eig(ops.Dense(G), n - 1, "LM", alg(Arnoldi, max_iters=n - 1))
        return [arr_digest(w, V.to_dense())], 0
    if site == "eig_power":
        w, V = cola.linalg.eig(P, 1, "LM", alg(PowerIteration, max_iter=8))
        return [arr_digest(w, V.to_dense() if hasattr(V, "to_dense") else V)], 0
    if site == "logdet":
        return [arr_digest(cola.linalg.logdet(P, alg(Lanczos, max_iters=n), alg(Hutch, key=key, max_iters=e["max_iters"], tol=e["tol"])))], 0
    if site == "expm":
        return [arr_digest(cola.linalg.exp(P / (2.0 * n * n), alg(Lanczos, max_iters=n)) @ ones)], 0
    if site == "svd_lanczos":
        from cola.linalg.svd.svd import svd
        U, Sg, V = svd(ops.Dense(G), 2, "LM", alg(Lanczos, max_iters=n))
        return [arr_digest(U.to_dense(), Sg.to_dense(), V.to_dense())], 0
    if site == "svd_lobpcg":
        from cola.linalg.svd.svd import svd
        U, Sg, V = svd(ops.Dense(G), 2, "LM", alg(LOBPCG, max_iters=2))
        return [arr_digest(U.to_dense(), Sg.to_dense(), V.to_dense())], 0
    if site == "eigmax_auto":            # Auto -> PowerIteration with the default key
        return [arr_digest(cola.linalg.eigmax(P, alg(cola.Auto)))], 0
    if site == "eigmax_power":
        return [arr_digest(cola.linalg.eigmax(P, alg(PowerIteration, max_iter=8)))], 0
    if site == "inv_cg":                 # no draw; the algorithm object may still be a reused one
        return [arr_digest(cola.linalg.inv(P, alg(cola.CG, max_iters=n)) @ ones)], 0
    if site == "inv_gmres":
        return [arr_digest(cola.linalg.inv(ops.Dense(G), alg(cola.GMRES, max_iters=n)) @ ones)], 0
    if site == "sqrt_lanczos":           # Lanczos started from the operand: no draw at all
        return [arr_digest(cola.linalg.sqrt(P, alg(Lanczos, max_iters=n)) @ ones)], 0
    if site == "lobpcg":
        w, V = lobpcg(P, max_iters=2)
        return [arr_digest(w, V.to_dense())], 0
    if site == "eig_lobpcg":
        w, V = cola.linalg.eig(P, 2, "LM", alg(LOBPCG, max_iters=2))
        return [arr_digest(w, V.to_dense())], 0
    raise AssertionError(site)


def lobpcg_draw_count(e):
    n = e["n"]
    return n * min(n - 1, 2)


class Tables:
    """generator tables collected by the reference run (numpy only)"""

    def __init__(self):
        self.seed, self.draw, self.sha = {}, {}, {}

    def need_sha(self, k):
        self.sha[k] = sha_hash(k)
        return self.sha[k]

    def need_keyed(self, key, count, dt="float64"):
        """seed(key); randn(count).astype(dt): digests of the seeded state and of the block"""
        keep = np.random.get_state()
        np.random.seed(key)
        s = state_digest()
        z = np.random.randn(count)
        self.seed[key] = s
        self.draw[(s, code(count, 0, dt))] = (flat_digest(z, dt), state_digest())
        np.random.set_state(keep)
        return z.astype(dt)


def reference_run(hist, seed0, lob_global, tabs):
    """user events only (+ the LOBPCG sites as a user draw when the tree has that defect). Returns state digests after events."""
    np.random.seed(seed0)
    g0 = state_digest()
    saved, states, pay = [], [], []
    for e in hist:
        before = state_digest()
        if e["e"] == "cola":
            p = []
            if e["site"] in LOB and lob_global:
                c = lobpcg_draw_count(e)
                np.random.normal(size=c)
                tabs.draw[(before, code(c, 2))] = (0, state_digest())
        else:
            p = user_event(e, saved)
            if e["e"] == "udraw":
                tabs.draw[(before, code(e["c"], e["kind"]))] = (p[0], state_digest())
            elif e["e"] == "useed":
                tabs.seed[e["k"]] = state_digest()
        saved.append(np.random.get_state())
        states.append(state_digest())
        pay.append(p)
    return g0, states, pay


def impl_run(hist, seed0):
    """the real thing: user events and cola calls on the process-wide generator; algorithm objects are shared along the history"""
    np.random.seed(seed0)
    saved, out = [], []
    algs = {}
    for e in hist:
        before = state_digest()
        err = None
        nblk = 0
        if e["e"] == "cola":
            try:
                p, nblk = call_site(e, algs=algs)
            except Exception as ex:
                p, err = [], type(ex).__name__
        else:
            p = user_event(e, saved)
        saved.append(np.random.get_state())
        out.append(dict(state=state_digest(), before=before, payload=p, err=err, nblk=nblk))
    return out


def clean_result(e):
    """the same call in a different global state: for keyed_deterministic. Returns (payload, nblk, exception class or None)"""
    np.random.seed(424242)
    np.random.rand(7)
    try:
        p, nblk = call_site(e)
        return p, nblk, None
    except Exception as ex:
        return [], 0, type(ex).__name__


def okey(k):
    return "None" if k is None else f"(Some {k})"


def coq_history(hist, g0, ref_states, impl, tabs, lob_global, clean):
    """Coq term of one hist_case; `clean[i]` = (payload, nblk) of cola event i in a clean state"""
    evs = []
    fz = []
    for i, e in enumerate(hist):
        if e["e"] == "udraw":
            evs.append(f"e_udraw {code(e['c'], e['kind'])}%nat")
        elif e["e"] == "useed":
            evs.append(f"e_useed {e['k']}")
        elif e["e"] == "uset":
            evs.append(f"e_uset {ref_states[e['j']]}")
        else:
            site, n, key = e["site"], e["n"], e["key"]
            dt = e.get("dt", "float64")
            if impl[i]["err"] is not None or clean[i][2] is not None:
                # the routine raised (not reachable for this dtype / operand): no value; the state must be what it was
                evs.append(f"e_uset {ref_states[i - 1] if i > 0 else g0}")
                continue
            res = clean[i][0][-1] if clean[i][0] else -1
            bs = min(100, n)
            tabs.need_sha(42)
            tabs.need_sha(0)
            if site in ("hutch", "hutch_diag", "hutch_trace", "logdet"):
                nblk = clean[i][1]
                kk = tabs.need_sha(42) if key is None else key
                for _ in range(max(nblk, e["max_iters"]) + 1):
                    kk = tabs.need_sha(kk)
                    tabs.need_keyed(kk, n * bs, dt)
                if site == "logdet":   # probe blocks are not observable through the Lanczos-based logdet
                    evs.append(f"e_nystrom T {okey(key)} {code(n, 0, dt)}%nat {res}")
                    tabs.need_keyed(tabs.sha[42] if key is None else key, n, dt)
                else:
                    evs.append(f"e_hutch T {okey(key)} {code(n * bs, 0, dt)}%nat {e['max_iters']}%nat {nblk}%nat {res}")
            elif site == "slq":
                ns = max(int(1 / 0.5 ** 2), 1)
                tabs.need_keyed(tabs.sha[0] if key is None else key, n * ns, dt)
                evs.append(f"e_slq {okey(key)} {code(n * ns, 0, dt)}%nat {res}")
            elif site in ("lanczos", "arnoldi"):
                kk = tabs.sha[42] if key is None else key
                z = tabs.need_keyed(kk, n, dt)
                zd = flat_digest(z)
                try:
                    p2, _ = call_site(e, start=z)         # the routine given that very start vector
                    fz.append((i, zd, p2[-1]))
                except Exception:
                    pass
                evs.append(f"e_start T {okey(key)} {code(n, 0, dt)}%nat {i} FZ")
            elif site == "power":
                tabs.need_keyed(tabs.sha[42] if key is None else key, n, dt)
                evs.append(f"e_power T {okey(key)} {code(n, 0, dt)}%nat {res}")
            elif site == "nystrom":
                tabs.need_keyed(tabs.sha[42] if key is None else key, n * e["rank"], dt)
                evs.append(f"e_nystrom T {okey(key)} {code(n * e['rank'], 0, dt)}%nat {res}")
            elif site in ("eig_lanczos", "eig_arnoldi", "eig_power", "expm", "svd_lanczos", "eigmax_auto", "sqrt_lanczos", "eigmax_power", "inv_cg", "inv_gmres"):
                tabs.need_keyed(tabs.sha[42], n, dt)
                evs.append(f"e_nystrom T None {code(n, 0, dt)}%nat {res}")
            elif site in ("adanys", "selrank"):
                evs.append(f"e_ada T {code(n, 0, dt)}%nat [{e['rank']}%nat] {res}")
            elif site == "rsvd":
                tabs.need_keyed(tabs.sha[0], n * (e["rank"] + 1), dt)
                evs.append(f"e_unkeyed {code(n * (e['rank'] + 1), 0, dt)}%nat {res}")
            elif site in LOB:
                if lob_global:
                    evs.append(f"e_lobpcg {code(lobpcg_draw_count(e), 2)}%nat")
                else:               # repaired tree: the start block is a keyed draw with the default key 42
                    tabs.need_keyed(tabs.sha[42], lobpcg_draw_count(e), dt)
                    evs.append(f"e_lobpcg_keyed T {code(lobpcg_draw_count(e), 0, dt)}%nat {res}")
            else:
                raise AssertionError(site)
    obs = []
    for e, o in zip(hist, impl):
        p = o["payload"]
        if e["e"] == "cola" and o["err"] is not None:
            p = []
        if e["e"] == "cola" and e["site"] in LOB and lob_global:
            p = []                                # its value depends on the history (that is the defect); state only
        obs.append("(%d, [%s])" % (o["state"], ";".join(str(x) for x in p)))

    def t2(d):
        return "[" + ";".join(f"({a},{b})" for a, b in d.items()) + "]"
    td = "[" + ";".join(f"(({s},{c}%nat),({v},{g}))" for (s, c), (v, g) in tabs.draw.items()) + "]"
    fzt = "[" + ";".join(f"(({a},{b}),{c})" for a, b, c in fz) + "]"
    return ("(let T := {| t_seed := %s; t_draw := %s; t_sha := %s |} in let FZ : list ((Z * Z) * Z) := %s in\n  {| c_tab := T; c_g0 := %d; c_hist := [%s]; c_obs := [%s] |})"
            % (t2(tabs.seed), td, t2(tabs.sha), fzt, g0, "; ".join(evs), "; ".join(obs)))


def eval_in_coq(tag, terms):
    jobs, spans = [], []
    step = 25
    for s in range(0, len(terms), step):
        body = ";\n".join(terms[s:s + step])
        text = HEADER + f"Definition cases : list hist_case := [\n{body}].\nDefinition res := Eval vm_compute in failing_from hist_ok 0%nat cases.\nPrint res.\n"
        jobs.append((f"c17_rng_{tag}_{s // step}", text))
        spans.append(s)
    outs = core.coqc_many(jobs, timeout=400)
    failing = []
    for (rc, out), s in zip(outs, spans):
        m = re.search(r"res\s*=\s*(\[[^\]]*\]|nil)", out.replace("\n", " "))
        if rc != 0 or not m:
            return [], f"coqc failed (rc={rc}): {out[-1500:]}"
        failing += [s + int(x) for x in re.findall(r"\d+", m.group(1))]
    return failing, None


def oracle_history(hist, impl, clean, lob_known):
    """the property's clauses read directly off the observations (no model): list of failed clauses"""
    bad = []
    for i, (e, o) in enumerate(zip(hist, impl)):
        if e["e"] != "cola":
            continue
        lob = e["site"] in LOB
        if lob and lob_known:
            continue
        dsc = f"{e['site']}(dtype={e.get('dt', 'float64')}, key={e['key']})"
        if o["state"] != o["before"]:
            bad.append(f"event {i}: {dsc} changed the global numpy RNG state")
        if o["err"] != clean[i][2]:
            bad.append(f"event {i}: {dsc} raised {o['err']} here but {clean[i][2]} in another global state")
        elif o["err"] is None and o["payload"] != clean[i][0]:
            bad.append(f"event {i}: {dsc}{' with a REUSED algorithm object' if e.get('reuse') else ''} is not bit-identical to the same call "
                       "with a fresh algorithm object in another global state")
    return bad


ALG_SITES = ("eig_lanczos", "eig_arnoldi", "eig_power", "eigmax_power", "hutch_diag", "hutch_trace", "logdet", "expm", "svd_lanczos",
             "svd_lobpcg", "eig_lobpcg", "sqrt_lanczos", "inv_cg", "inv_gmres")


def reuse_sweep(rnd, lob_known, reps=1):
    """Every routine that takes an Algorithm object, every dtype, with and without key: ONE algorithm object is used on
    operator A, on A again, on operator B and on A again; every result must be bit-identical to the same call made with a
    fresh object in another global state, and the global state must not move. Returns (calls, list of failed cases)."""
    calls, bad = 0, []
    for _ in range(reps):
        for site in ALG_SITES:
            if site in LOB and lob_known:
                continue
            for dt in DTS:
                for key in (None, rnd.randint(0, 2 ** 31)):
                    n = rnd.randint(3, 6)
                    sa, sb = rnd.randint(0, 10 ** 6), rnd.randint(0, 10 ** 6)
                    base = dict(e="cola", site=site, n=n, key=key, k=rnd.choice([0, 1, -1]), max_iters=rnd.randint(1, 4),
                                tol=rnd.choice([0.02, 0.1, 0.5]), rank=1, dt=dt, reuse=True)
                    algs = {}
                    for step, ms in enumerate((sa, sa, sb, sa)):
                        e = dict(base, mseed=ms)
                        np.random.seed(rnd.randint(0, 2 ** 31))
                        before = state_digest()
                        try:
                            p, _ = call_site(e, algs=algs)
                            err = None
                        except Exception as ex:
                            p, err = [], type(ex).__name__
                        after = state_digest()
                        fresh = clean_result(e)
                        calls += 1
                        cl = []
                        if after != before:
                            cl.append("changed the global numpy RNG state")
                        if err != fresh[2] or (err is None and p != fresh[0]):
                            cl.append("with a REUSED algorithm object (call %d of A,A,B,A) is not bit-identical to the same call with a fresh object" % (step + 1))
                        if cl:
                            bad.append(dict(case=e, call_number=step + 1, operators="A,A,B,A with one algorithm object", failed_clauses=[f"{site}(dtype={dt}, key={key}) " + c for c in cl]))
    return calls, bad
