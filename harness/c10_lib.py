"""Helpers shared by the spectral checks C09 / C10 / C16: matrices with a controlled spectrum, rendering of
floats as exact rationals for the Gaussian-rational instance QI, parsing of in-Coq comparison output."""
import re
from fractions import Fraction
import numpy as np
import core


# ------------------------------------------------------------------ numbers -> Coq (instance QI of FieldBase.v)
def q_of(x):
    """a Python int / Fraction / float -> (num, den) exactly"""
    f = Fraction(x) if not isinstance(x, Fraction) else x
    return f.numerator, f.denominator


def qic(z):
    z = complex(z) if not isinstance(z, (tuple, list)) else z
    if isinstance(z, complex):
        re_, im_ = z.real, z.imag
    else:
        re_, im_ = z
    a, b = q_of(re_)
    c, d = q_of(im_)
    return f"(qic ({a}) {b} ({c}) {d})"


def qic_exact(re_, im_=0):
    """from Fractions / ints"""
    a, b = q_of(re_)
    c, d = q_of(im_)
    return f"(qic ({a}) {b} ({c}) {d})"


def qvec(v):
    return "[" + ";".join(qic(complex(x)) for x in np.asarray(v).reshape(-1)) + "]"


def qmat(M):
    M = np.asarray(M)
    return "[" + ";".join(qvec(M[i]) for i in range(M.shape[0])) + "]"


def qc_lit(x):
    a, b = q_of(x)
    return f"(qc ({a}) {b})"


def hexf(x):
    x = float(x)
    if x != x:
        return "nan"
    if x in (float("inf"), float("-inf")):
        return "infinity" if x > 0 else "neg_infinity"
    return f"({x.hex()})%float"


def fvec(v):
    return "[" + ";".join(hexf(x) for x in np.asarray(v, dtype=np.float64).reshape(-1)) + "]"


def fmat(M):
    M = np.asarray(M, dtype=np.float64)
    return "[" + ";".join(fvec(M[i]) for i in range(M.shape[0])) + "]"


def run_shards(prefix, header, decl, terms, evalcmd, shard=200, timeout=900):
    """compile shards `header; Definition cases : list <decl> := [...]. <evalcmd>`; returns (outputs per shard as (rc, text), shard size)"""
    jobs = []
    for s in range(0, len(terms), shard):
        body = header + f"Definition cases : list {decl} := [\n" + ";\n".join(terms[s:s + shard]) + "].\n" + evalcmd + "\n"
        jobs.append((f"{prefix}_{s // shard}", body))
    return core.coqc_many(jobs, timeout), shard


def parse_natlist(out):
    """`= [1; 5] : list nat` -> [1,5]; None when not found"""
    m = re.search(r"=\s*\[(.*?)\]\s*:\s*list", out, flags=re.S)
    if not m:
        return None
    body = m.group(1).strip()
    if not body:
        return []
    return [int(x.replace("%nat", "").strip()) for x in body.replace("\n", " ").split(";") if x.strip()]


def parse_pairlist(out):
    m = re.search(r"=\s*\[(.*?)\]\s*:\s*list", out, flags=re.S)
    if not m:
        return None
    return [(int(a), int(b)) for a, b in re.findall(r"\((\d+)(?:%nat)?\s*,\s*(\d+)(?:%nat)?\)", m.group(1))]


# ------------------------------------------------------------------ matrices with a controlled spectrum
def nprng(rnd):
    return np.random.default_rng(rnd.getrandbits(32))


def rand_unitary(g, n, cplx):
    M = g.standard_normal((n, n)) + (1j * g.standard_normal((n, n)) if cplx else 0)
    Q, Rr = np.linalg.qr(M)
    return Q * (np.diag(Rr) / np.abs(np.diag(Rr)))


def well_cond(g, n, cplx, kappa=4.0):
    """invertible S with condition number <= kappa"""
    U = rand_unitary(g, n, cplx)
    W = rand_unitary(g, n, cplx)
    s = np.exp(g.uniform(0, np.log(kappa), n))
    return (U * s) @ W.conj().T


def separated(rnd, n, lo=0.5, gap=0.35, signs=False, grow=1.45):
    """n magnitudes, geometrically separated (ratio >= 1+gap), shuffled; optional random signs"""
    mags = []
    x = lo * (1 + rnd.random())
    for _ in range(n):
        mags.append(x)
        x *= (1 + gap) + rnd.random() * (grow - 1)
    rnd.shuffle(mags)
    if signs:
        mags = [m * rnd.choice([-1, 1]) for m in mags]
    return mags


def mag_sets_equal(sel_vals, all_vals, k, which, rtol=1e-6):
    """is `sel_vals` (k values) the set of k largest ('LM') / smallest ('SM') magnitude entries of all_vals?
    returns (ok, near_tie)"""
    a = np.asarray(all_vals)
    mags = np.sort(np.abs(a))
    n = len(mags)
    if which == "LM":
        want = mags[n - k:]
        border = (mags[n - k - 1], mags[n - k]) if k < n else None
    else:
        want = mags[:k]
        border = (mags[k - 1], mags[k]) if k < n else None
    near = border is not None and abs(border[1] - border[0]) <= 1e-3 * abs(border[1])
    got = np.sort(np.abs(np.asarray(sel_vals)))
    ok = len(got) == k and np.allclose(got, want, rtol=rtol, atol=rtol * (float(mags.max()) if n else 1.0))
    return ok, near
