#!/bin/bash
# cherry-pick the prepared fix commits from branch verif-fixes onto /repo main one by one, running the baseline suite after each
cd /repo
for c in $(git log --reverse --format=%H f035180..verif-fixes); do
  if git log --format=%s main | grep -qxF "$(git log -1 --format=%s $c)"; then continue; fi
  git cherry-pick $c >/dev/null 2>&1 || { echo "CHERRY-PICK FAILED $c"; git cherry-pick --abort; exit 1; }
  /venv/bin/python -m pytest -q -p no:cacheprovider --timeout=900 --continue-on-collection-errors -rA 2>/dev/null | grep "^PASSED" | sort > /tmp/seed/_fix_passed.txt
  n=$(wc -l < /tmp/seed/_fix_passed.txt)
  if diff -q /tmp/seed/_base_passed.txt /tmp/seed/_fix_passed.txt >/dev/null; then echo "OK $(git log -1 --format='%h %s' | cut -c1-110) [$n passed]"; else echo "TESTS DIFFER after $(git log -1 --format='%h %s') [$n passed]"; diff /tmp/seed/_base_passed.txt /tmp/seed/_fix_passed.txt | head -5; exit 1; fi
done
