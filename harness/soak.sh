#!/bin/bash
# usage: soak.sh <seed>...   -- run every quick check on /repo with the given seeds; one summary line per run in run/soak.log
cd /verif
for s in "$@"; do for i in $(seq -w 1 20); do
  out=$(VERIF_SEED=$s timeout 3000 ./check C$i 2>&1 | grep -v '^KNOWN' | tail -3)
  echo "seed=$s $(echo "$out" | tail -1)" >> run/soak.log
  echo "$out" | grep VIOLATION >> run/soak.log
done; done
echo "soak done $*" >> run/soak.log
