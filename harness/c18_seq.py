"""C18: sequences of public operations on a pool of operators and caller-owned arrays; after every call all caller-owned
arrays are compared byte for byte with their snapshot, at the end of a sequence every operator involved must still have
the same dense matrix / annotations, and every call of the sequence is repeated and must return the same result."""
import logging
import numpy as np
import shim  # noqa: F401
import cola
from cola import ops
from cola.linalg.inverse.cg import cg
from cola.linalg.inverse.gmres import gmres
import cola.linalg.decompositions.decompositions
from cola.linalg.decompositions.lanczos import lanczos
from cola.linalg.decompositions.arnoldi import arnoldi
from cola.linalg.eig.power_iteration import power_iteration
from cola.linalg.trace.diagonal_estimation import hutchinson_diag_estimate
import c18_pool as P

LinearOperator = ops.LinearOperator


def snap(a):
    a = np.asarray(a)
    return (a.tobytes(), a.dtype.str, a.shape)


def op_state(A):
    """what an operator 'represents': dense matrix, annotations, shape, dtype, kind"""
    D = np.asarray(A.to_dense())
    return (snap(D), tuple(P.ann_names(A)), tuple(A.shape), str(np.dtype(A.dtype)), type(A).__name__, str(A.device))


def res_digest(r):
    """canonical description of a result for 'repeating the call gives the same result'"""
    if isinstance(r, LinearOperator):
        try:
            return ("op",) + op_state(r)
        except Exception as e:            # an operator that cannot be densified is described by its leaves
            return ("op-leaves", type(r).__name__, tuple(snap(x) if isinstance(x, np.ndarray) else repr(type(x)) for x in r.flatten()[0]), type(e).__name__)
    if isinstance(r, np.ndarray) or np.isscalar(r):
        return ("arr", snap(r))
    if isinstance(r, (tuple, list)):
        return ("seq",) + tuple(res_digest(x) for x in r)
    if isinstance(r, dict):
        return ("dict",)                  # info dictionaries contain timings
    if callable(r):
        return ("fn",)
    return ("other", repr(type(r)))


def arrays_in(r, out):
    if isinstance(r, np.ndarray):
        out.append(r)
    elif isinstance(r, LinearOperator):
        for x in r.flatten()[0]:
            if isinstance(x, np.ndarray):
                out.append(x)
    elif isinstance(r, (tuple, list)):
        for x in r:
            arrays_in(x, out)
    return out


def ops_in(r, out):
    if isinstance(r, LinearOperator):
        out.append(r)
    elif isinstance(r, (tuple, list)):
        for x in r:
            ops_in(x, out)
    return out


class Ctx:
    """operand supply for one sequence: all choices from one PRNG; operands are caller-owned and tracked"""

    def __init__(self, rnd, pool):
        self.rnd, self.pool = rnd, pool
        self.derived = []            # operators produced earlier in the sequence
        self.tracked = []            # (array, snapshot, label)
        self.used = []               # pool entries used
        self.alias_obs = []          # (query, tree, observed) for the Coq aliasing functions
        self.layout = None           # force an operand layout (alias sweep)
        self.force = None            # force the pool entry (alias sweep)
        self.wrong = []              # products that disagree with the independent dense oracle

    def check_product(self, e, got, want_fn, what):
        """independent oracle (numpy on the dense matrix of the tree, integers: exact): the product of a pool operator
        with the operand as it was BEFORE the call"""
        try:
            import trees as T
            want = want_fn(T.dense(e["tree"]))
            g = np.asarray(got).astype(np.complex128)
            if g.shape != want.shape or not np.array_equal(g, want):
                self.wrong.append(dict(clause=f"{what} is not the represented matrix times the operand (as it was before the call)", tree=e["tree"]))
        except Exception as ex:
            self.wrong.append(dict(clause=f"{what}: oracle comparison raised {type(ex).__name__}: {ex}", tree=e["tree"]))

    def check_copy(self, A, B, what, ann=True, dev=False):
        """a copy made through flatten/unflatten (round trip, .to(None), annotation wrapper) must be the same operator:
        kind, shape, dtype, represented matrix (and annotations unless the call adds one). The device is not compared: the
        numpy backend has the single device None, and operators derived from Identity.to("cpu") (only generated once that
        call no longer mutates) carry a device attribute that Kronecker does not propagate consistently"""
        try:
            a, b = op_state(A), op_state(B)
            diff = [n for n, x, y in zip(("dense matrix", "annotations", "shape", "dtype", "kind", "device"), a, b) if x != y and (ann or n != "annotations") and (dev or n != "device")]
            if diff:
                self.wrong.append(dict(clause=f"{what} differs from the operator it copies in: {', '.join(diff)}", operator_kind=type(A).__name__,
                                       before=str((a[2], a[3], a[1])), after=str((b[2], b[3], b[1]))))
        except Exception as ex:
            self.wrong.append(dict(clause=f"{what}: comparison raised {type(ex).__name__}: {ex}", operator_kind=type(A).__name__))

    def track(self, a, label):
        self.tracked.append((a, snap(a), label))
        return a

    def pick(self, pred=lambda e: True, derived_ok=True):
        """an operator: a pool entry (returned with its entry) or a derived one"""
        if self.force is not None:
            if self.force not in self.used:
                self.used.append(self.force)
            return self.force["op"], self.force
        cands = [e for e in self.pool if pred(e["op"])]
        dcands = [d for d in self.derived if pred(d)] if derived_ok else []
        if not cands and not dcands:
            return None, None
        if dcands and (not cands or self.rnd.random() < 0.35):
            return self.rnd.choice(dcands), None
        e = self.rnd.choice(cands)
        if e not in self.used:
            self.used.append(e)
        return e["op"], e

    def operand(self, rows, cols=None, dtype=None, label="X", layout=None, nonzero=False):
        """a caller-owned operand; layout: 'C' contiguous, 'F' Fortran order (transposed view of a C array),
        'strided' every second row/entry of a larger caller-owned buffer (the buffer is tracked as well)"""
        r = self.rnd
        shape = (rows,) if cols is None else (rows, cols)
        a = np.array([r.randint(-3, 3) for _ in range(int(np.prod(shape)))], dtype=np.float64).reshape(shape)
        if dtype is not None and np.dtype(dtype).kind == "c":
            a = a + 1j * np.array([r.randint(-2, 2) for _ in range(a.size)], dtype=np.float64).reshape(shape)
        a = a.astype(dtype or np.float64)
        if nonzero:
            a[(0,) * a.ndim] += 5          # never the zero vector
        layout = layout or self.layout or r.choice(["C", "C", "F", "strided"])
        if layout == "F" and a.ndim == 2:
            base = np.ascontiguousarray(a.T)
            self.track(base, label + "(buffer)")
            a = base.T
        elif layout == "strided":
            base = np.zeros((2 * shape[0],) + shape[1:], dtype=a.dtype)
            base[::2] = a
            self.track(base, label + "(buffer)")
            a = base[::2]
        return self.track(a, label)


def square(A):
    return A.shape[0] == A.shape[1]


def small_sq(A):
    return square(A) and A.shape[0] <= 6


def is_real(A):
    return np.dtype(A.dtype).kind == "f"


# ---- the alphabet: name -> function(ctx) -> thunk.  A thunk performs the call (and can be called again to repeat it).
def _mk_alphabet():
    al = {}

    def op(name):
        def deco(f):
            al[name] = f
            return f
        return deco

    @op("matmat")
    def _(c):
        A, e = c.pick()
        X = c.operand(A.shape[1], c.rnd.randint(1, 3), A.dtype)
        X0 = X.copy()

        def call():
            Y = A @ X
            if e is not None:
                c.alias_obs.append(("QMatmat", e["tree"], bool(np.shares_memory(Y, X))))
                c.check_product(e, Y, lambda Dn: Dn @ X0, "A @ X")
            return Y
        return call

    @op("matvec")
    def _(c):
        A, e = c.pick()
        v = c.operand(A.shape[1], None, A.dtype, "v")
        v0 = v.copy()

        def call():
            y = A @ v
            if e is not None:
                c.alias_obs.append(("QMatmat", e["tree"], bool(np.shares_memory(y, v))))
                c.check_product(e, y, lambda Dn: Dn @ v0, "A @ v")
            return y
        return call

    @op("rmatmat")
    def _(c):
        A, e = c.pick()
        X = c.operand(c.rnd.randint(1, 3), A.shape[0], A.dtype)
        X0 = X.copy()

        def call():
            Y = X @ A
            if e is not None:
                c.alias_obs.append(("QRmatmat", e["tree"], bool(np.shares_memory(Y, X))))
                c.check_product(e, Y, lambda Dn: X0 @ Dn, "X @ A")
            return Y
        return call

    @op("to_dense")
    def _(c):
        A, e = c.pick()

        def call():
            Dn = A.to_dense()
            if e is not None:
                c.alias_obs.append(("QDense", e["tree"], any(np.shares_memory(Dn, a) for a in e["arrays"])))
            return Dn
        return call

    @op("transpose")
    def _(c):
        A, _ = c.pick()
        return lambda: A.T

    @op("adjoint")
    def _(c):
        A, _ = c.pick()
        return lambda: A.H

    def same_shape(c):
        A, _ = c.pick()
        B, _ = c.pick(lambda M: M.shape == A.shape)
        return A, B

    @op("add")
    def _(c):
        A, B = same_shape(c)
        return lambda: A + B

    @op("sub")
    def _(c):
        A, B = same_shape(c)
        return lambda: A - B

    @op("neg")
    def _(c):
        A, _ = c.pick()
        return lambda: -A

    @op("scale")
    def _(c):
        A, _ = c.pick()
        s = float(c.rnd.randint(2, 3))
        return lambda: s * A

    @op("div")
    def _(c):
        A, _ = c.pick()
        return lambda: A / 2.0

    @op("matmul")
    def _(c):
        A, _ = c.pick()
        B, _ = c.pick(lambda M: M.shape[0] == A.shape[1])
        if B is None:
            return None
        return lambda: A @ B

    @op("kron")
    def _(c):
        A, _ = c.pick(lambda M: M.shape[0] * M.shape[1] <= 9)
        B, _ = c.pick(lambda M: M.shape[0] * M.shape[1] <= 9)
        if A is None or B is None:
            return None
        return lambda: cola.kron(A, B)

    @op("block_diag")
    def _(c):
        A, _ = c.pick(lambda M: max(M.shape) <= 4)
        B, _ = c.pick(lambda M: max(M.shape) <= 4)
        if A is None or B is None:
            return None
        return lambda: cola.block_diag(A, B)

    @op("annotate")
    def _(c):
        A, _ = c.pick(square)
        if A is None:
            return None
        w = c.rnd.choice([cola.PSD, cola.SelfAdjoint, cola.Unitary, cola.Stiefel])

        def call():
            B = w(A)
            c.check_copy(A, B, f"{w.__name__}(A)", ann=False)
            return B
        return call

    @op("to_none")
    def _(c):
        A, _ = c.pick()

        def call():
            B = A.to(None)
            c.check_copy(A, B, "A.to(None)", dev=False)     # the device is what a move changes
            return B
        return call

    @op("to_device")      # only in the alphabet when the recorded finding identity_to_mutates_self is gone
    def _(c):
        A, _ = c.pick(lambda M: isinstance(M, ops.Identity), derived_ok=False)
        if A is None:
            return None
        return lambda: A.to("cpu")

    @op("flatten")
    def _(c):
        A, _ = c.pick()
        return lambda: A.flatten()[0]

    @op("roundtrip")
    def _(c):
        A, _ = c.pick()

        def call():
            vals, un = A.flatten()
            B = un(vals)
            c.check_copy(A, B, "unflatten(flatten(A))")
            return B
        return call

    @op("getitem")
    def _(c):
        A, _ = c.pick()
        i = c.rnd.randint(1, A.shape[0])
        j = c.rnd.randint(1, A.shape[1])
        return lambda: A[0:i, 0:j]

    @op("getitem_idx")      # integer index ARRAYS (negative entries included) are caller-owned too
    def _(c):
        A, _ = c.pick()
        m, n = A.shape

        def idx(size):
            cnt = c.rnd.randint(1, size)
            return c.track(np.array([c.rnd.randint(-size, size - 1) for _ in range(cnt)], dtype=np.int64), "index array")
        rows = idx(m)
        cols = idx(n) if c.rnd.random() < 0.5 else None
        if cols is None:
            return lambda: A[rows]
        return lambda: A[rows, cols]

    @op("getelem")
    def _(c):
        A, _ = c.pick(square)
        if A is None:
            return None
        i, j = c.rnd.randrange(A.shape[0]), c.rnd.randrange(A.shape[1])
        return lambda: A[i, j]

    @op("diag")
    def _(c):
        A, e = c.pick(square)
        if A is None:
            return None

        def call():
            d = cola.linalg.diag(A)
            if e is not None:
                c.alias_obs.append(("QDiag", e["tree"], any(np.shares_memory(d, a) for a in e["arrays"])))
            return d
        return call

    @op("trace")
    def _(c):
        A, _ = c.pick(square)
        if A is None:
            return None
        return lambda: cola.linalg.trace(A)

    @op("inv_apply")
    def _(c):
        A, _ = c.pick(small_sq)
        if A is None:
            return None
        v = c.operand(A.shape[0], None, A.dtype, "b")
        return lambda: cola.linalg.inv(A) @ v

    @op("solve")
    def _(c):
        A, _ = c.pick(small_sq)
        if A is None:
            return None
        B = c.operand(A.shape[0], 2, A.dtype, "B")
        return lambda: cola.linalg.solve(A, B)

    @op("eig")
    def _(c):
        A, _ = c.pick(small_sq)
        if A is None:
            return None
        k = min(2, A.shape[0])
        return lambda: cola.linalg.eig(A, k)

    # ---- the same ALGORITHM OBJECTS are reused across all sequences of the run (and again in the repetition phase):
    # state hidden on an algorithm object is part of the history
    @op("eig_alg")
    def _(c):
        A, _ = c.pick(small_sq)
        if A is None:
            return None
        name = c.rnd.choice(["power", "power", "lanczos", "arnoldi", "eigh", "eig", "lobpcg", "auto"])
        k = 1 if name == "power" else min(2, A.shape[0])
        return lambda: cola.linalg.eig(A, k, "LM", ALGS[name])

    @op("eigmax_alg")
    def _(c):
        A, _ = c.pick(small_sq)
        if A is None:
            return None
        name = c.rnd.choice(["power", "auto", "lanczos"])
        return lambda: cola.linalg.eigmax(A, ALGS[name])

    @op("inv_alg")
    def _(c):
        A, _ = c.pick(small_sq)
        if A is None:
            return None
        v = c.operand(A.shape[0], None, A.dtype, "b", nonzero=True)
        name = c.rnd.choice(["cg", "gmres", "lu", "chol", "auto"])
        return lambda: cola.linalg.inv(A, ALGS[name]) @ v

    @op("trace_alg")
    def _(c):
        A, _ = c.pick(lambda M: small_sq(M) and is_real(M))
        if A is None:
            return None
        name = c.rnd.choice(["hutch", "hutch_nokey", "exact"])
        return lambda: (cola.linalg.trace(A, ALGS[name]), cola.linalg.diag(A, 0, ALGS[name]))

    @op("unary_alg")
    def _(c):
        A, _ = c.pick(small_sq)
        if A is None:
            return None
        v = c.operand(A.shape[0], None, A.dtype, "v")
        f = c.rnd.choice([cola.linalg.exp, cola.linalg.sqrt, cola.linalg.logdet])
        name = c.rnd.choice(["lanczos", "arnoldi", "auto"])
        if f is cola.linalg.logdet:
            return lambda: f(A, ALGS[name], ALGS["hutch"])
        return lambda: f(A, ALGS[name]) @ v

    @op("logdet")
    def _(c):
        A, _ = c.pick(small_sq)
        if A is None:
            return None
        return lambda: cola.linalg.slogdet(A)

    @op("cg")
    def _(c):
        A, _ = c.pick(lambda M: small_sq(M))
        if A is None:
            return None
        b = c.operand(A.shape[0], None, A.dtype, "b")
        x0 = c.operand(A.shape[0], None, A.dtype, "x0")
        mi = c.rnd.randint(0, 4)
        return lambda: cg(A, b, x0=x0, max_iters=mi, tol=1e-6)

    @op("gmres")
    def _(c):
        A, _ = c.pick(lambda M: small_sq(M))
        if A is None:
            return None
        b = c.operand(A.shape[0], None, A.dtype, "b", nonzero=True)
        x0 = c.operand(A.shape[0], None, A.dtype, "x0")
        mi = c.rnd.randint(1, 3)
        return lambda: gmres(A, b, x0=x0, max_iters=mi)

    @op("sqrt_apply")
    def _(c):
        A, _ = c.pick(lambda M: small_sq(M))
        if A is None:
            return None
        v = c.operand(A.shape[0], None, A.dtype, "v")
        return lambda: cola.linalg.sqrt(A) @ v

    @op("cholesky_like")
    def _(c):
        A, _ = c.pick(lambda M: small_sq(M))
        if A is None:
            return None
        f = c.rnd.choice([cola.linalg.decompositions.decompositions.cholesky, cola.linalg.decompositions.decompositions.plu])
        return lambda: f(A)

    @op("lanczos")
    def _(c):
        A, _ = c.pick(lambda M: small_sq(M))
        if A is None:
            return None
        v = c.operand(A.shape[0], None, A.dtype, "start", nonzero=True)
        mi = c.rnd.randint(1, 4)
        return lambda: lanczos(A, start_vector=v, max_iters=mi)

    @op("arnoldi")
    def _(c):
        A, _ = c.pick(lambda M: small_sq(M))
        if A is None:
            return None
        v = c.operand(A.shape[0], None, A.dtype, "start", nonzero=True)
        mi = c.rnd.randint(1, 4)
        return lambda: arnoldi(A, start_vector=v, max_iters=mi)

    @op("hutch")
    def _(c):
        A, _ = c.pick(lambda M: small_sq(M) and is_real(M))
        if A is None:
            return None
        key = c.rnd.randint(0, 10 ** 6)
        return lambda: hutchinson_diag_estimate(A, 0, tol=0.1, max_iters=2, key=key)

    @op("power")
    def _(c):
        A, _ = c.pick(lambda M: small_sq(M) and is_real(M))
        if A is None:
            return None
        key = c.rnd.randint(0, 10 ** 6)
        return lambda: power_iteration(A, max_iter=4, key=key)

    @op("exp_apply")
    def _(c):
        A, _ = c.pick(lambda M: small_sq(M))
        if A is None:
            return None
        v = c.operand(A.shape[0], None, A.dtype, "v")
        return lambda: cola.linalg.exp(A) @ v

    @op("pinv_apply")
    def _(c):
        A, _ = c.pick(lambda M: max(M.shape) <= 5)
        if A is None:
            return None
        v = c.operand(A.shape[0], None, A.dtype, "v")
        return lambda: cola.linalg.pinv(A) @ v
    return al


ALGS = dict(power=cola.PowerIteration(max_iter=6), lanczos=cola.Lanczos(max_iters=4), arnoldi=cola.Arnoldi(max_iters=4), eigh=cola.Eigh(), eig=cola.Eig(),
            lobpcg=cola.LOBPCG(max_iters=2), cg=cola.CG(max_iters=5), gmres=cola.GMRES(max_iters=3), lu=cola.LU(), chol=cola.Cholesky(),
            hutch=cola.Hutch(key=5, max_iters=2, tol=0.1), hutch_nokey=cola.Hutch(max_iters=2, tol=0.1), exact=cola.Exact(), auto=cola.Auto())
ALPHABET = _mk_alphabet()
NAMES = sorted(ALPHABET)


def run_sequence(names, pool, rnd, check_all_pool=False, force=None, layout=None):
    """returns dict(violations=[...], errors={step: exception class}, inapplicable, alias_obs)"""
    logging.disable(logging.WARNING)
    c = Ctx(rnd, pool)
    c.force, c.layout = force, layout
    for e in (pool if force is None or any(force is x for x in pool) else pool + [force]):   # caller-owned arrays the operators were built from
        for i, a in enumerate(e["arrays"]):
            c.tracked.append((a, e["snaps"][i], "pool"))
    viol, errors, thunks, first = [], {}, [], []
    inapplicable = 0
    for step, name in enumerate(names):
        try:
            th = ALPHABET[name](c)
        except Exception as ex:
            th = None
            errors[step] = "setup:" + type(ex).__name__
        if th is None:
            inapplicable += 1
            thunks.append(None)
            first.append(None)
            continue
        try:
            r = th()
            d = res_digest(r)
        except Exception as ex:
            r, d = None, ("raised", type(ex).__name__)
            errors[step] = type(ex).__name__
        thunks.append(th)
        first.append(d)
        # every caller-owned array must be bit-identical after the call
        for a, s0, label in c.tracked:
            if snap(a) != s0:
                viol.append(dict(clause="caller-owned array modified", step=step, op=name, array=label))
        if r is not None:
            for a in arrays_in(r, []):
                if not any(a is t[0] for t in c.tracked):
                    c.track(a, f"result of step {step}")
            for o in ops_in(r, []):
                c.derived.append(o)
    # operators still represent the same matrix with the same annotations
    for e in (pool if check_all_pool else c.used):
        try:
            now = op_state(e["op"])
            if now[0] != snap(e["base"]) or list(now[1]) != e["ann"] or now[2] != tuple(e["shape"]) or now[3] != e["dtype"] or now[5] != e.get("device", "None"):
                viol.append(dict(clause="operator changed (dense matrix / annotations / shape / dtype / device)", tree=e["tree"], ops=list(names)))
        except Exception as ex:
            viol.append(dict(clause=f"operator can no longer be densified: {type(ex).__name__}: {ex}", tree=e["tree"], ops=list(names)))
    # repeating every call of the sequence returns the same result
    for step, th in enumerate(thunks):
        if th is None:
            continue
        try:
            d = res_digest(th())
        except Exception as ex:
            d = ("raised", type(ex).__name__)
        if d != first[step]:
            viol.append(dict(clause="repeated call returned a different result", step=step, op=names[step],
                             first=str(first[step])[:200], again=str(d)[:200]))
    for a, s0, label in c.tracked:
        if snap(a) != s0:
            viol.append(dict(clause="caller-owned array modified (during repetition)", array=label))
    for w in c.wrong:
        viol.append(dict(ops=list(names), **w))
    logging.disable(logging.NOTSET)
    return dict(violations=viol, errors=errors, inapplicable=inapplicable, alias_obs=c.alias_obs)
