"""usage: store_seed2.py <table.json>  -- copy round-2 seeds /tmp/seed2/<P>/seeded_out/<a|b> to /verif/seeded/<P><c|d>/ with meta.json
table: {"C01c": {"change": ..., "needs": ..., "verdict": ...}, ...}"""
import json, os, shutil, sys
tab = json.load(open(sys.argv[1]))
for sid, m in tab.items():
    P = sid[:3]
    rnd = 2 if sid[3] in "cd" else (3 if sid[3] in "efg" else (4 if sid[3] in "hij" else 5))
    x = {"c": "a", "d": "b", "e": "a", "f": "b", "g": "c", "h": "a", "i": "b", "j": "c", "k": "a", "l": "b"}[sid[3]]
    src = f"/tmp/seed{rnd}/{P}/seeded_out/{x}"
    dst = f"/verif/seeded/{sid}"
    os.makedirs(dst, exist_ok=True)
    for f in ("patch.diff", "demo.py", "README.md"):
        if os.path.exists(os.path.join(src, f)):
            shutil.copy(os.path.join(src, f), os.path.join(dst, f))
    meta = {"property": P, "round": rnd, "change": m["change"], "needs_to_manifest": m["needs"],
            "confirmed": "patch applies to /repo HEAD with the fix: commits; demo.py exits 0 unchanged and 1 patched; the same 130 baseline tests pass with the patch (harness/seed_eval2.sh in a scratch worktree)",
            "check_run": f"COLA_REPO=<scratch worktree with the patch> ./check {m.get('check', P)}", "verdict": m["verdict"]}
    json.dump(meta, open(os.path.join(dst, "meta.json"), "w"), indent=1)
    print("stored", sid)
