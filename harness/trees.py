"""Operator expression trees: generator, cola builder, independent dense oracle, Coq printer.
A tree is a JSON-able dict {"k": kind, ...}; scalars are Gaussian integers [re, im]."""
import numpy as np

REAL = ("float32", "float64")
CPLX = ("complex64", "complex128")
DTS = REAL + CPLX
LEAF = ("Dense", "Tri", "Diag", "Ident", "Scal", "Perm", "Tridiag", "House", "Sparse", "Gen")
COMP = ("Sum", "Prod", "Kron", "BDiag", "Transp", "Adj", "KronSum", "Sliced", "Concat")


def npdt(name):
    return getattr(np, name)


class Gen:
    """Structured random trees. All choices come from self.rnd (one PRNG)."""

    def __init__(self, rnd, kinds=None, dts=DTS, maxdim=3, vmax=3, cplx_frac=0.4):
        self.rnd = rnd
        self.kinds = set(kinds or (LEAF + COMP))
        self.dts = dts
        self.maxdim = maxdim
        self.vmax = vmax
        self.cplx_frac = cplx_frac
        self.concat_equal = False
        self.sparse_sorted = False
        self.mix_excl = set()   # kinds not generated inside mixed real/complex trees (regions of recorded findings)

    def val(self, dt):
        r = self.rnd
        re = r.randint(-self.vmax, self.vmax)
        im = r.randint(-2, 2) if dt in CPLX else 0
        return [re, im]

    def dt(self, want_cplx=None):
        r = self.rnd
        if want_cplx is None:
            want_cplx = r.random() < self.cplx_frac
        pool = [d for d in self.dts if (d in CPLX) == want_cplx] or list(self.dts)
        return r.choice(pool)

    def dim(self):
        return self.rnd.randint(1, self.maxdim)

    def leaf(self, shape, cplx):
        r = self.rnd
        m, n = shape
        if cplx == "mix":
            cplx = r.random() < 0.5
        dt = self.dt(cplx)
        opts = ["Dense", "Dense", "Dense"]
        if "Tri" in self.kinds and m == n:
            opts.append("Tri")
        if "Sparse" in self.kinds:
            opts.append("Sparse")
        if "Gen" in self.kinds:
            opts.append("Gen")
        if m == n:
            opts += [k for k in ("Diag", "Ident", "Scal", "Perm", "Tridiag", "House") if k in self.kinds]
        k = r.choice(opts)
        if k == "Dense":
            return dict(k="Dense", dt=dt, a=[[self.val(dt) for _ in range(n)] for _ in range(m)])
        if k == "Gen":
            return gen_leaf(self, m, n)
        if k == "Tri":
            lower = r.random() < 0.5
            a = [[self.val(dt) if ((j <= i) if lower else (j >= i)) else [0, 0] for j in range(n)] for i in range(m)]
            return dict(k="Tri", dt=dt, a=a, lower=lower)
        if k == "Sparse":
            ne = r.randint(0, min(6, m * n))
            pos = r.sample([(i, j) for i in range(m) for j in range(n)], ne)  # no duplicate coordinates (cola's constructor rejects them)
            if self.sparse_sorted:
                # recorded finding sparse_unsorted_cols: the constructor pairs an unstable argsort of the rows with scipy's
                # column-sorted CSR indices, so (also after transposition) at most one entry per row and per column is safe
                q = min(m, n)
                rows_, cols_ = r.sample(range(m), q), r.sample(range(n), q)
                pos = sorted(zip(rows_, cols_))[:r.randint(0, q)]
            ent = [[i, j, self.val(dt)] for i, j in pos]
            return dict(k="Sparse", dt=dt, m=m, n=n, ent=ent)
        if k == "Diag":
            return dict(k="Diag", dt=dt, d=[self.val(dt) for _ in range(m)])
        if k == "Ident":
            return dict(k="Ident", dt=dt, n=m)
        if k == "Scal":
            return dict(k="Scal", dt=dt, c=self.val(dt), n=m)
        if k == "Perm":
            p = list(range(m))
            r.shuffle(p)
            return dict(k="Perm", dt=dt, p=p, neg=[r.random() < 0.4 for _ in p] if r.random() < 0.35 else None)
        if k == "Tridiag":
            return dict(k="Tridiag", dt=dt, al=[self.val(dt) for _ in range(m - 1)], be=[self.val(dt) for _ in range(m)],
                        ga=[self.val(dt) for _ in range(m - 1)])
        if k == "House":
            return dict(k="House", dt=dt, v=[self.val(dt) for _ in range(m)], beta=self.val(dt))
        raise AssertionError(k)

    def tree(self, depth, shape=None, cplx=None):
        r = self.rnd
        if cplx is None:
            cplx = r.random() < self.cplx_frac
        if shape is None:
            shape = (self.dim(), self.dim())
            free = True
        else:
            free = False
        m, n = shape
        if depth <= 0 or r.random() < 0.15:
            return self.leaf(shape, cplx)
        opts = [k for k in ("Sum", "Prod", "Transp", "Adj", "Sliced", "Concat") if k in self.kinds and not (cplx == "mix" and k in self.mix_excl)]
        if free:
            opts += [k for k in ("Kron", "BDiag", "Kron", "BDiag") if k in self.kinds]
            if "KronSum" in self.kinds and not (cplx == "mix" and "KronSum" in self.mix_excl):
                opts.append("KronSum")
        if not free:   # structured kinds that fit a prescribed shape
            if "Kron" in self.kinds and (m > 1 or n > 1):
                opts.append("KronFit")
            if "KronSum" in self.kinds and not (cplx == "mix" and "KronSum" in self.mix_excl) and m == n and m > 1 and any(m % a == 0 for a in range(2, m)):
                opts.append("KronSumFit")
            if "BDiag" in self.kinds and m > 1 and n > 1:
                opts.append("BDiagFit")
        opts.append("leaf")
        k = r.choice(opts)
        d = depth - 1
        if k == "KronFit":
            m1 = r.choice([a for a in range(1, m + 1) if m % a == 0])
            n1 = r.choice([a for a in range(1, n + 1) if n % a == 0])
            return dict(k="Kron", ms=[self.tree(d, (m1, n1), cplx), self.tree(d, (m // m1, n // n1), cplx)])
        if k == "KronSumFit":
            a = r.choice([a for a in range(2, m) if m % a == 0])
            return dict(k="KronSum", ms=[self.tree(d, (a, a), cplx), self.tree(d, (m // a, m // a), cplx)])
        if k == "BDiagFit":
            m1, n1 = r.randint(1, m - 1), r.randint(1, n - 1)
            return dict(k="BDiag", ms=[self.tree(d, (m1, n1), cplx), self.tree(d, (m - m1, n - n1), cplx)], mu=[1, 1])
        if k == "leaf":
            return self.leaf(shape, cplx)
        if k == "Sum":
            return dict(k="Sum", ms=[self.tree(d, (m, n), cplx) for _ in range(r.randint(2, 3))])
        if k == "Prod":
            ks = [m] + [self.dim() for _ in range(r.randint(1, 2))] + [n]
            return dict(k="Prod", ms=[self.tree(d, (ks[i], ks[i + 1]), cplx) for i in range(len(ks) - 1)])
        if k in ("Transp", "Adj"):
            return dict(k=k, a=self.tree(d, (n, m), cplx))
        if k == "Kron":
            return dict(k="Kron", ms=[self.tree(d, (r.randint(1, 2), r.randint(1, 3)), cplx) for _ in range(r.randint(2, 3))])
        if k == "KronSum":
            return dict(k="KronSum", ms=[self.tree(d, (s, s), cplx) for s in [r.randint(1, 2) for _ in range(r.randint(2, 3))]])
        if k == "BDiag":
            nb = r.randint(1, 3)
            return dict(k="BDiag", ms=[self.tree(d, (r.randint(1, 2), r.randint(1, 2)), cplx) for _ in range(nb)],
                        mu=[r.randint(1, 2) for _ in range(nb)])
        if k == "Sliced":
            M, N = m + r.randint(0, 2), n + r.randint(0, 2)
            rs = sorted(r.sample(range(M), m))
            cs = sorted(r.sample(range(N), n))
            if r.random() < 0.3:
                rs.reverse()
            return dict(k="Sliced", a=self.tree(d, (M, N), cplx), rs=rs, cs=cs)
        if k == "Concat":
            parts = []
            left = m
            if self.concat_equal:  # the constructor's assertion compares the concatenated axis (recorded finding)
                divs = [h for h in range(1, m + 1) if m % h == 0]
                h = r.choice(divs)
                parts = [h] * (m // h)
                left = 0
            while left > 0:
                h = r.randint(1, left)
                parts.append(h)
                left -= h
            return dict(k="Concat", axis=0, ms=[self.tree(d, (h, n), cplx) for h in parts])
        raise AssertionError(k)


SQUARE_ONLY = ("Diag", "Ident", "Scal", "Perm", "Tridiag", "House", "KronSum")


def gen_leaf(gen, m, n):
    """operators defined by a product routine rather than by a payload: LinearOperator(matmat=...), no_dispatch, Kernel,
    Jacobian, Hessian (real float64; exact integer derivatives supplied with the map, see shim.QuadMap / QuadForm)"""
    r = gen.rnd
    vias = ["matmat", "nodispatch", "kernel", "jacobian"] + (["hessian"] if m == n else [])
    via = r.choice(vias)
    a = [[[r.randint(-gen.vmax, gen.vmax), 0] for _ in range(n)] for _ in range(m)]
    t = dict(k="Gen", dt="float64", a=a, via=via)
    if via == "hessian":
        for i in range(m):
            for j in range(i):
                a[i][j] = a[j][i]
    if via == "kernel":
        t["bs"] = [r.randint(1, m + 1), r.randint(1, n + 1)]
    if via == "jacobian":
        t["x"] = [r.randint(-2, 2) for _ in range(n)]
        t["Q"] = [[[r.randint(-1, 1) for _ in range(n)] for _ in range(n)] for _ in range(m)]
    return t


def rooted(gen, kind, m=None, n=None, cplx=False, depth=1):
    """a tree whose ROOT has the given kind; m / n prescribe rows / columns when not None. Returns None if impossible."""
    r = gen.rnd
    free_shape = m is None and n is None
    if kind in SQUARE_ONLY:
        if m is not None and n is not None and m != n:
            return None
        m = n = (m if m is not None else (n if n is not None else r.randint(1, 3)))
    else:
        m = m if m is not None else r.randint(1, 3)
        n = n if n is not None else r.randint(1, 3)
    c = (r.random() < 0.5) if cplx == "mix" else cplx
    dt = gen.dt(c)
    d = depth - 1
    if kind == "Dense":
        return dict(k="Dense", dt=dt, a=[[gen.val(dt) for _ in range(n)] for _ in range(m)])
    if kind == "Gen":
        return gen_leaf(gen, m, n)
    if kind == "Tri":
        if m != n:
            return None
        lower = r.random() < 0.5
        return dict(k="Tri", dt=dt, lower=lower, a=[[gen.val(dt) if ((j <= i) if lower else (j >= i)) else [0, 0] for j in range(n)] for i in range(m)])
    if kind == "Sparse":
        q = min(m, n)
        pos = sorted(zip(r.sample(range(m), q), r.sample(range(n), q)))[:r.randint(0, q)] if gen.sparse_sorted else \
            r.sample([(i, j) for i in range(m) for j in range(n)], r.randint(0, min(5, m * n)))
        return dict(k="Sparse", dt=dt, m=m, n=n, ent=[[i, j, gen.val(dt)] for i, j in pos])
    if kind == "Diag":
        return dict(k="Diag", dt=dt, d=[gen.val(dt) for _ in range(m)])
    if kind == "Ident":
        return dict(k="Ident", dt=dt, n=m)
    if kind == "Scal":
        return dict(k="Scal", dt=dt, c=gen.val(dt), n=m)
    if kind == "Perm":
        p = list(range(m))
        r.shuffle(p)
        return dict(k="Perm", dt=dt, p=p, neg=[r.random() < 0.4 for _ in p] if r.random() < 0.35 else None)
    if kind == "Tridiag":
        return dict(k="Tridiag", dt=dt, al=[gen.val(dt) for _ in range(m - 1)], be=[gen.val(dt) for _ in range(m)], ga=[gen.val(dt) for _ in range(m - 1)])
    if kind == "House":
        return dict(k="House", dt=dt, v=[gen.val(dt) for _ in range(m)], beta=gen.val(dt))
    if kind == "Sum":
        return dict(k="Sum", ms=[gen.tree(d, (m, n), cplx) for _ in range(r.randint(2, 3))])
    if kind == "Prod":
        ks = [m] + [gen.dim() for _ in range(r.randint(1, 2))] + [n]
        return dict(k="Prod", ms=[gen.tree(d, (ks[i], ks[i + 1]), cplx) for i in range(len(ks) - 1)])
    if kind in ("Transp", "Adj"):
        return dict(k=kind, a=gen.tree(d, (n, m), cplx))
    if kind == "Kron":
        nf = r.randint(2, 3)
        fm, fn = [], []
        mm, nn = m, n
        for i in range(nf - 1):
            a = r.choice([x for x in range(1, mm + 1) if mm % x == 0])
            b = r.choice([x for x in range(1, nn + 1) if nn % x == 0])
            fm.append(a); fn.append(b); mm //= a; nn //= b
        fm.append(mm); fn.append(nn)
        return dict(k="Kron", ms=[gen.tree(d, (a, b), cplx) for a, b in zip(fm, fn)])
    if kind == "KronSum":
        divs = [x for x in range(1, m + 1) if m % x == 0]
        a = r.choice(divs)
        return dict(k="KronSum", ms=[gen.tree(d, (a, a), cplx), gen.tree(d, (m // a, m // a), cplx)])
    if kind == "BDiag" and free_shape:   # free shape: choose the blocks first, multiplicities mostly > 1
        nb = r.randint(1, 2)
        return dict(k="BDiag", ms=[gen.tree(d, (r.randint(1, 2), r.randint(1, 2)), cplx) for _ in range(nb)], mu=[r.choice([1, 2, 2, 3]) for _ in range(nb)])
    if kind == "BDiag":
        mu = r.choice([x for x in (1, 2, 3) if m % x == 0 and n % x == 0])
        bm, bn = m // mu, n // mu
        if bm >= 2 and bn >= 2 and r.random() < 0.5:
            m1, n1 = r.randint(1, bm - 1), r.randint(1, bn - 1)
            return dict(k="BDiag", ms=[gen.tree(d, (m1, n1), cplx), gen.tree(d, (bm - m1, bn - n1), cplx)], mu=[mu, mu])
        return dict(k="BDiag", ms=[gen.tree(d, (bm, bn), cplx)], mu=[mu])
    if kind == "Sliced":
        M, N = m + r.randint(0, 2), n + r.randint(0, 2)
        st, sn = r.randint(0, M - m), r.randint(0, N - n)
        rs, cs = list(range(st, st + m)), list(range(sn, sn + n))
        if r.random() < 0.3:
            rs.reverse()
        return dict(k="Sliced", a=gen.tree(d, (M, N), cplx), rs=rs, cs=cs)
    if kind == "Concat":
        hs = [h for h in range(1, m + 1) if m % h == 0] if gen.concat_equal else list(range(1, m + 1))
        h = r.choice(hs)
        parts = [h] * (m // h) if gen.concat_equal else ([h, m - h] if m - h > 0 else [h])
        return dict(k="Concat", axis=0, ms=[gen.tree(d, (p_, n), cplx) for p_ in parts])
    raise AssertionError(kind)


def shape(t):
    k = t["k"]
    if k in ("Dense", "Tri", "Gen"):
        return (len(t["a"]), len(t["a"][0]) if t["a"] else 0)
    if k == "Sparse":
        return (t["m"], t["n"])
    if k == "Diag":
        return (len(t["d"]),) * 2
    if k in ("Ident", "Scal"):
        return (t["n"],) * 2
    if k == "Perm":
        return (len(t["p"]),) * 2
    if k == "Tridiag":
        return (len(t["be"]),) * 2
    if k == "House":
        return (len(t["v"]),) * 2
    if k == "Sum":
        return shape(t["ms"][0])
    if k == "Prod":
        return (shape(t["ms"][0])[0], shape(t["ms"][-1])[1])
    if k in ("Transp", "Adj"):
        s = shape(t["a"])
        return (s[1], s[0])
    if k in ("Kron", "KronSum"):
        r = c = 1
        for x in t["ms"]:
            s = shape(x)
            r *= s[0]
            c *= s[1]
        return (r, c)
    if k == "BDiag":
        r = c = 0
        for x, mu in zip(t["ms"], t["mu"]):
            s = shape(x)
            r += s[0] * mu
            c += s[1] * mu
        return (r, c)
    if k == "Sliced":
        return (len(t["rs"]), len(t["cs"]))
    if k == "Concat":
        ss = [shape(x) for x in t["ms"]]
        return (sum(s[0] for s in ss), ss[0][1]) if t["axis"] == 0 else (ss[0][0], sum(s[1] for s in ss))
    raise AssertionError(k)


def depth(t):
    subs = t.get("ms") or ([t["a"]] if isinstance(t.get("a"), dict) else [])
    return 1 + max([depth(x) for x in subs], default=0)


def kinds_of(t, acc=None):
    acc = acc if acc is not None else []
    acc.append(t["k"])
    for x in (t.get("ms") or ([t["a"]] if isinstance(t.get("a"), dict) else [])):
        kinds_of(x, acc)
    return acc


def c(v):
    return complex(v[0], v[1])


def arr(rows, dt):
    a = np.array([[c(v) for v in r] for r in rows], dtype=np.complex128).reshape(len(rows), len(rows[0]) if rows else 0)
    return a.astype(npdt(dt)) if dt in CPLX else a.real.astype(npdt(dt))


def vec(vs, dt):
    a = np.array([c(v) for v in vs], dtype=np.complex128)
    return a.astype(npdt(dt)) if dt in CPLX else a.real.astype(npdt(dt))


def near_real_tree(gen, rnd):
    """complex128 operators whose entries are ALMOST real relative to their size (real parts ~1e6, imaginary parts 1 or 2):
    tolerance-based tests such as allclose(d, conj(d)) accept them although they are not Hermitian.  64-bit payloads only
    (the values and their pairwise products are exact in double precision)."""
    dt = "complex128"
    n = rnd.randint(1, 3)
    nv = lambda: [rnd.choice([-1, 1]) * 10 ** 6 * rnd.randint(1, 3), rnd.choice([-2, -1, 1, 2])]
    kind = rnd.choice(["Diag", "Diag", "Diag", "Dense", "Scal", "Tridiag"])
    if kind == "Diag":
        t = dict(k="Diag", dt=dt, d=[nv() for _ in range(n)])
    elif kind == "Dense":
        t = dict(k="Dense", dt=dt, a=[[nv() if i == j else [0, 0] for j in range(n)] for i in range(n)])
    elif kind == "Scal":
        t = dict(k="Scal", dt=dt, c=nv(), n=n)
    else:
        t = dict(k="Tridiag", dt=dt, al=[[0, 0] for _ in range(n - 1)], be=[nv() for _ in range(n)], ga=[[0, 0] for _ in range(n - 1)])
    small = lambda m_: dict(k="Diag", dt="float64", d=[[rnd.randint(1, 3), 0] for _ in range(m_)])
    w = rnd.random()
    if w < 0.25:
        t = dict(k="Sum", ms=[t, dict(k="Scal", dt="float64", c=[rnd.randint(1, 3), 0], n=n)])
    elif w < 0.45:
        t = dict(k="Kron", ms=[t, small(rnd.randint(1, 2))] if rnd.random() < 0.5 else [small(rnd.randint(1, 2)), t])
    elif w < 0.6:
        t = dict(k="BDiag", ms=[t, small(rnd.randint(1, 2))], mu=[rnd.randint(1, 2), 1])
    return t


def near_sym_tree(gen, rnd):
    """64-bit Dense (or Triangular-free Sum / Product of such) whose matrix is ALMOST symmetric / Hermitian relative to its size
    (entries ~1e6, skew part 1..3): tolerance tests such as allclose(A, A.T) accept it although A.T != A."""
    n = rnd.randint(2, 3)
    cplx = rnd.random() < 0.5
    dt = "complex128" if cplx else "float64"
    a = [[[0, 0] for _ in range(n)] for _ in range(n)]
    for i in range(n):
        a[i][i] = [rnd.choice([-1, 1]) * 10 ** 6 * rnd.randint(1, 3), 0]
        for j in range(i + 1, n):
            re_, im_ = rnd.choice([-1, 1]) * 10 ** 6 * rnd.randint(1, 3), (rnd.choice([-1, 1]) * 10 ** 6 if cplx and rnd.random() < 0.5 else 0)
            k_, l_ = rnd.choice([-3, -2, -1, 1, 2, 3]), (rnd.choice([-2, -1, 1, 2]) if cplx else 0)
            a[i][j] = [re_ + k_, im_ + l_]
            a[j][i] = [re_ - k_, -im_ + l_] if cplx and rnd.random() < 0.5 else [re_ - k_, im_ - l_]
    t = dict(k="Dense", dt=dt, a=a)
    w = rnd.random()
    if w < 0.2:
        t = dict(k="Sum", ms=[t, dict(k="Diag", dt="float64", d=[[rnd.randint(1, 3), 0] for _ in range(n)])])
    elif w < 0.35:
        t = dict(k="Prod", ms=[dict(k="Diag", dt="float64", d=[[rnd.randint(1, 2), 0] for _ in range(n)]), t])
    return t


def range_slice(idx):
    """index list -> python slice when it is an arithmetic progression, else None"""
    if len(idx) == 0:
        return slice(0, 0)
    if len(idx) == 1:
        return slice(idx[0], idx[0] + 1)
    st = idx[1] - idx[0]
    if st == 0 or any(idx[i + 1] - idx[i] != st for i in range(len(idx) - 1)):
        return None
    stop = idx[-1] + st
    return slice(idx[0], stop if stop >= 0 else None, st)


def build(t):
    """tree -> cola operator (constructors only)"""
    import cola
    from cola import ops
    k = t["k"]
    if k == "Dense":
        return ops.Dense(arr(t["a"], t["dt"]))
    if k == "Tri":
        return ops.Triangular(arr(t["a"], t["dt"]), lower=t["lower"])
    if k == "Gen":
        import shim
        Mx = arr(t["a"], "float64")
        m_, n_ = Mx.shape
        via = t["via"]
        if via == "matmat":
            return ops.LinearOperator(np.float64, (m_, n_), matmat=lambda X, Mx=Mx: Mx @ X)
        if via == "nodispatch":
            return cola.fns.no_dispatch(ops.Dense(Mx))
        if via == "kernel":
            x1, x2 = np.arange(m_, dtype=np.float64).reshape(-1, 1), np.arange(n_, dtype=np.float64).reshape(-1, 1)
            fn = lambda a_, b_, Mx=Mx: Mx[np.ix_(a_[:, 0].astype(int), b_[:, 0].astype(int))]
            return ops.Kernel(x1, x2, fn, t["bs"][0], t["bs"][1])
        if via == "jacobian":
            x = np.array(t["x"], dtype=np.float64)
            Q = np.array(t["Q"], dtype=np.float64)
            Mlin = Mx - np.einsum("j,ijk->ik", x, Q + Q.transpose(0, 2, 1))   # so that J(x) = Mx exactly
            return ops.Jacobian(shim.QuadMap(Q, Mlin), x)
        if via == "hessian":
            return ops.Hessian(shim.QuadForm(Mx), np.zeros(n_, dtype=np.float64))
        raise AssertionError(via)
    if k == "Sparse":
        ent = t["ent"]
        return ops.Sparse(vec([e[2] for e in ent], t["dt"]), np.array([e[0] for e in ent], dtype=np.int64),
                          np.array([e[1] for e in ent], dtype=np.int64), (t["m"], t["n"]))
    if k == "Diag":
        return ops.Diagonal(vec(t["d"], t["dt"]))
    if k == "Ident":
        return ops.Identity((t["n"], t["n"]), npdt(t["dt"]))
    if k == "Scal":
        v = c(t["c"])
        return ops.ScalarMul(v if t["dt"] in CPLX else v.real, (t["n"], t["n"]), npdt(t["dt"]))
    if k == "Perm":
        # "neg": the same permutation spelled with negative (wrap-around) entries, valid numpy fancy indices
        pv = [pi - len(t["p"]) if (t.get("neg") and t["neg"][i]) else pi for i, pi in enumerate(t["p"])]
        return ops.Permutation(np.array(pv, dtype=np.int64), npdt(t["dt"]))
    if k == "Tridiag":
        return ops.Tridiagonal(vec(t["al"], t["dt"]), vec(t["be"], t["dt"]), vec(t["ga"], t["dt"]))
    if k == "House":
        b = c(t["beta"])
        return ops.Householder(vec(t["v"], t["dt"]).reshape(-1, 1), b if t["dt"] in CPLX else b.real)
    if k in ("Sum", "Prod", "Kron", "KronSum"):
        cls = dict(Sum=ops.Sum, Prod=ops.Product, Kron=ops.Kronecker, KronSum=ops.KronSum)[k]
        return cls(*[build(x) for x in t["ms"]])
    if k == "BDiag":
        return ops.BlockDiag(*[build(x) for x in t["ms"]], multiplicities=list(t["mu"]))
    if k == "Transp":
        return ops.Transpose(build(t["a"]))
    if k == "Adj":
        return ops.Adjoint(build(t["a"]))
    if k == "Sliced":
        def sl(idx):
            s = range_slice(idx)
            return s if (s is not None and not t.get("ia")) else np.array(idx, dtype=np.int64)   # "ia": force integer index arrays
        return ops.Sliced(build(t["a"]), (sl(t["rs"]), sl(t["cs"])))
    if k == "Concat":
        return ops.Concatenated(*[build(x) for x in t["ms"]], axis=t["axis"])
    raise AssertionError(k)


def dense(t):
    """independent oracle: the represented matrix as complex128 (exact: all values are small integers)"""
    import scipy.linalg as sl
    k = t["k"]
    C = np.complex128
    if k in ("Dense", "Tri", "Gen"):
        return arr(t["a"], "complex128")
    if k == "Sparse":
        a = np.zeros((t["m"], t["n"]), dtype=C)
        for i, j, v in t["ent"]:
            a[i, j] += c(v)
        return a
    if k == "Diag":
        return np.diag(vec(t["d"], "complex128"))
    if k == "Ident":
        return np.eye(t["n"], dtype=C)
    if k == "Scal":
        return c(t["c"]) * np.eye(t["n"], dtype=C)
    if k == "Perm":
        n = len(t["p"])
        a = np.zeros((n, n), dtype=C)
        for i, p in enumerate(t["p"]):
            a[i, p] = 1
        return a
    if k == "Tridiag":
        n = len(t["be"])
        a = np.diag(vec(t["be"], "complex128"))
        for i in range(n - 1):
            a[i + 1, i] = c(t["al"][i])
            a[i, i + 1] = c(t["ga"][i])
        return a
    if k == "House":
        v = vec(t["v"], "complex128").reshape(-1, 1)
        return np.eye(len(t["v"]), dtype=C) - c(t["beta"]) * (v @ v.conj().T)
    if k == "Sum":
        return sum(dense(x) for x in t["ms"])
    if k == "Prod":
        out = dense(t["ms"][0])
        for x in t["ms"][1:]:
            out = out @ dense(x)
        return out
    if k == "Kron":
        out = dense(t["ms"][0])
        for x in t["ms"][1:]:
            out = np.kron(out, dense(x))
        return out
    if k == "KronSum":
        out = dense(t["ms"][0])
        for x in t["ms"][1:]:
            b = dense(x)
            out = np.kron(out, np.eye(b.shape[0])) + np.kron(np.eye(out.shape[0]), b)
        return out
    if k == "BDiag":
        blocks = [dense(x) for x, mu in zip(t["ms"], t["mu"]) for _ in range(mu)]
        return sl.block_diag(*blocks).astype(C) if blocks else np.zeros((0, 0), dtype=C)
    if k == "Transp":
        return dense(t["a"]).T
    if k == "Adj":
        return dense(t["a"]).conj().T
    if k == "Sliced":
        return dense(t["a"])[np.ix_(t["rs"], t["cs"])]
    if k == "Concat":
        return np.concatenate([dense(x) for x in t["ms"]], axis=t["axis"])
    raise AssertionError(k)


def absbound(t):
    """upper bound on |entry| of every partial sum occurring when the tree is applied (dense of the |.| tree)"""
    def ab(t):
        t2 = dict(t)
        for key in ("a", "d", "al", "be", "ga", "v"):
            if key in t2 and not isinstance(t2[key], dict):
                x = t2[key]
                t2[key] = [[[abs(v[0]) + abs(v[1]), 0] for v in r] for r in x] if (x and isinstance(x[0][0], list)) else [[abs(v[0]) + abs(v[1]), 0] for v in x]
        if "c" in t2:
            t2["c"] = [abs(t["c"][0]) + abs(t["c"][1]), 0]
        if "beta" in t2:
            t2["beta"] = [-(abs(t["beta"][0]) + abs(t["beta"][1])), 0]
        if "ent" in t2:
            t2["ent"] = [[i, j, [abs(v[0]) + abs(v[1]), 0]] for i, j, v in t["ent"]]
        if "ms" in t2:
            t2["ms"] = [ab(x) for x in t["ms"]]
        if isinstance(t2.get("a"), dict):
            t2["a"] = ab(t["a"])
        if t2["k"] == "Adj":
            t2["k"] = "Transp"
        return t2
    d = dense(ab(t))
    return float(np.abs(d).sum(axis=1).max()) if d.size else 0.0


# ---------------------------------------------------------------- Coq printing (instance ZI: Gaussian integers)
def zc(v):
    return f"({int(v[0])},{int(v[1])})%Z"


def zrow(vs):
    return "[" + ";".join(zc(v) for v in vs) + "]"


def zmat(rows):
    return "[" + ";".join(zrow(r) for r in rows) + "]"


def nlist(xs):
    return "[" + ";".join(f"{int(x)}%nat" for x in xs) + "]"


def coq(t):
    k = t["k"]
    if k in ("Dense", "Tri"):
        m, n = shape(t)
        return f"Dense (of_list_mn {m} {n} {zmat(t['a'])})"
    if k == "Gen":
        m, n = shape(t)
        return f"Gen (of_list_mn {m} {n} {zmat(t['a'])})"
    if k == "Sparse":
        return f"Sparse {t['m']} {t['n']} [" + ";".join(f"({i}%nat,{j}%nat,{zc(v)})" for i, j, v in t["ent"]) + "]"
    if k == "Diag":
        return f"Diag {len(t['d'])} (of_vec {zrow(t['d'])})"
    if k == "Ident":
        return f"Ident {t['n']}"
    if k == "Scal":
        return f"Scal {zc(t['c'])} {t['n']}"
    if k == "Perm":
        return f"Perm {len(t['p'])} (of_nvec {nlist(t['p'])})"
    if k == "Tridiag":
        return f"Tridiag {len(t['be'])} (of_vec {zrow(t['al'])}) (of_vec {zrow(t['be'])}) (of_vec {zrow(t['ga'])})"
    if k == "House":
        return f"House {len(t['v'])} (of_vec {zrow(t['v'])}) {zc(t['beta'])}"
    if k in ("Sum", "Prod", "Kron", "KronSum"):
        return f"{k} [" + ";".join("(" + coq(x) + ")" for x in t["ms"]) + "]"
    if k == "BDiag":
        return "BDiag [" + ";".join(f"(({coq(x)}), {mu}%nat)" for x, mu in zip(t["ms"], t["mu"])) + "]"
    if k in ("Transp", "Adj"):
        return f"{k} ({coq(t['a'])})"
    if k == "Sliced":
        return f"Sliced ({coq(t['a'])}) {nlist(t['rs'])} {nlist(t['cs'])}"
    if k == "Concat":
        assert t["axis"] == 0
        return "ConcatV [" + ";".join("(" + coq(x) + ")" for x in t["ms"]) + "]"
    raise AssertionError(k)


def to_gauss(a):
    """numpy array (integral values) -> nested lists of [re, im]; raises if not integral"""
    a = np.asarray(a)
    re, im = np.real(a), np.imag(a)
    if not (np.all(re == np.round(re)) and np.all(im == np.round(im))):
        raise ValueError("non-integral result")
    if a.ndim == 1:
        return [[int(x), int(y)] for x, y in zip(re.tolist(), im.tolist())]
    return [[[int(x), int(y)] for x, y in zip(r, s)] for r, s in zip(re.tolist(), im.tolist())]


# ---------------------------------------------------------------- dtype skeleton (coq/Dtype.v)
DTC = dict(int32="I32", int64="I64", float32="F32", float64="F64", complex64="C64", complex128="C128")
LK = dict(Dense="LDense", Tri="LDense", Gen="LDense", Sparse="LSparse", Diag="LDiag", Scal="LScal", Tridiag="LTridiag", House="LHouse", Ident="LIdent", Perm="LPerm")


def dsk(t):
    k = t["k"]
    if k in LK:
        return f"DLeaf {LK[k]} {DTC[t['dt']]}"
    if k in ("Sum", "Prod", "Kron", "KronSum", "BDiag", "Concat"):
        c = dict(Sum="DSum", Prod="DProd", Kron="DKron", KronSum="DKronSum", BDiag="DBDiag", Concat="DConcat")[k]
        return f"{c} [" + ";".join("(" + dsk(x) + ")" for x in t["ms"]) + "]"
    if k in ("Transp", "Adj", "Sliced"):
        return dict(Transp="DTransp", Adj="DAdj", Sliced="DSliced")[k] + " (" + dsk(t["a"]) + ")"
    raise AssertionError(k)
