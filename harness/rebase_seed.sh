#!/bin/bash
# usage: rebase_seed.sh <seed id>  -- try a 3-way application of seeded/<id>/patch.diff on a scratch worktree at /repo HEAD;
# on success confirm (demo 0/1, same passed set) and print the refreshed patch path; never touches /repo's working tree
id=$1; wt=/tmp/seedre
if [ ! -d $wt ]; then git -C /repo worktree add -q --detach $wt HEAD; fi
cd $wt && git checkout -q --detach $(git -C /repo rev-parse HEAD) && git checkout -q -- . && git clean -qfd
if git apply --3way /verif/seeded/$id/patch.diff 2>/tmp/seedre_$id.err; then
  git diff HEAD -- cola > /tmp/seedre_$id.diff; git reset -q --hard HEAD
  mkdir -p /tmp/seedre_$id && cp /tmp/seedre_$id.diff /tmp/seedre_$id/patch.diff && cp /verif/seeded/$id/demo.py /tmp/seedre_$id/demo.py
  /verif/harness/confirm_seed.sh $wt /tmp/seedre_$id
else
  echo "3-WAY FAILED for $id"; cat /tmp/seedre_$id.err | tail -5; git reset -q --hard HEAD
fi
