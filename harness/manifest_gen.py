"""Regenerates MANIFEST.json from the table below (keeps it schema-valid at all times)."""
import json, os
V = os.path.dirname(os.path.dirname(os.path.abspath(__file__)))
CLAIMED = json.load(open(os.path.join(V, "harness", "claims.json")))
ALL = [f"C{i:02d}" for i in range(1, 21)]
checks = []
for pid in ALL:
    if pid not in CLAIMED:
        continue
    c = CLAIMED[pid]
    checks.append(dict(
        property_id=pid, quick_cmd=f"./check {pid} --tier quick", thorough_cmd=f"./check {pid} --tier thorough",
        evidence_file=f"evidence/{pid}.json", replay_cmd_template="./check " + pid + " --replay {path}", engine="coq-model+correspondence",
        level_claimed=dict(category="proof", text=c["text"], design_ref=f"DESIGN.md section 5, {pid}"),
        level_note=c["note"], technique=c.get("technique", "machine-checked proof in Coq 8.16 about a hand-written Gallina model + differential correspondence check of that model against /repo (model evaluated by vm_compute inside Coq)")))
na = [dict(property_id=p, reason="check not built yet in this tree (in progress; see DESIGN.md section 8)") for p in ALL if p not in CLAIMED]
m = dict(version=1, setup_cmd="./setup.sh",
         hooks=dict(guard="COLA_VERIF", enable="no hook inside /repo is needed; the harness installs a NumPy backend shim at import time (harness/shim.py)",
                    baseline_off_cmd="cd /repo && /venv/bin/python -m pytest -ra -q -p no:cacheprovider --timeout=900 --continue-on-collection-errors",
                    source_commits=[], add_only=True),
         engines=[dict(name="coq-model+correspondence", path="coq/ + harness/", serves_properties=sorted(CLAIMED),
                       kind_free_text="Coq 8.16.1 development (model + theorems) re-checked on every run; Python harness generates cases, runs /repo's cola and the model (vm_compute) on the same inputs and compares inside Coq")],
         checks=checks, not_applicable=na,
         notes="See DESIGN.md. KNOWN_FINDINGS.txt lists recorded defects of the pinned tree (known:) and repaired ones (fixed:).")
json.dump(m, open(os.path.join(V, "MANIFEST.json"), "w"), indent=1)
print("claimed:", sorted(CLAIMED))
