"""C17, part B: the Hutchinson estimator of cola against the Coq model (coq/C17_Hutch.v, C17_HutchExec.v) fed with the
probe blocks cola actually multiplied the operator with, plus an independent numpy oracle and a statistical test."""
import hashlib
import numpy as np
import shim  # noqa: F401
import cola
from cola import ops
from cola.linalg.trace.diagonal_estimation import hutchinson_diag_estimate, Hutch
import trees as T
import core

HEADER = ("From Coq Require Import List ZArith Bool PrimFloat.\nFrom Core Require Import Base C17_Hutch C17_HutchExec.\n"
          "Import ListNotations.\nOpen Scope Z_scope.\n")


def sha_hash(n):
    """independent re-implementation of np_fns.sha_hash (PRNGKey / next_key)"""
    b = int(n).to_bytes((int(n).bit_length() + 7) // 8, "big")
    return int(int.from_bytes(hashlib.sha256(b).digest(), "big") % (2 ** 32 - 1))


def keyed_values(key, shape):
    """what randn(*shape, key=key) must return: seed, draw - on a PRIVATE generator (the global one is not touched)"""
    rs = np.random.RandomState(key)
    return rs.randn(*shape)


class Recorder:
    """a generic LinearOperator around A that records every operand it is multiplied with"""

    def __init__(self, A):
        self.seen = []
        self.A = A

        def mm(X):
            self.seen.append(np.array(X, copy=True))
            return A @ X
        self.op = ops.LinearOperator(A.dtype, A.shape, matmat=mm)


def fhex(x):
    x = float(x)
    if x != x:
        return "nan"
    if x in (float("inf"), float("-inf")):
        return "infinity" if x > 0 else "neg_infinity"
    h = x.hex()
    return f"({h})%float" if h[0] == "-" else f"{h}%float"


def zlit(v):
    v = int(v)
    return f"({v})" if v < 0 else str(v)


def gen_case(ctx, gen, tier):
    r = ctx.rng
    for _ in range(200):
        n = r.randint(1, 6)
        if tier == "Z":
            t = gen.tree(r.randint(0, 2), (n, n), False)
            dt = r.choice(["float64", "float64", "float32"])
        elif tier == "F":
            t = None
            dt = r.choice(["float64", "float64", "float32"])
        elif tier == "C":          # complex operators: oracle only (the Coq model is over a real ring / binary64)
            t = None
            dt = r.choice(["complex128", "complex64"])
        else:                      # "B": n > 100, so bs = 100 != n: oracle only
            t = None
            dt = "float64"
            n = r.choice([101, 107, 128])
        k = r.choice([0, 0, 0] + list(range(-(n - 1), n)))
        if tier == "B":
            k = r.choice([0, 0, 1, -1, 3, -(n - 1), n - 1])
        mi = r.choice([0, 1, 2, 3, 4, 5, 6, 8, 10, 12])
        tol = r.choice([1.1e-3, 0.003, 0.01, 0.02, 0.03, 0.05, 0.1, 0.2, 0.4, 1.0]) * (1 + r.random())
        key = None if r.random() < 0.2 else r.randint(0, 2 ** 31)
        if tier == "Z":
            D = np.real(T.dense(t))
            if np.abs(D).sum() * n * 8 > 2 ** 20:
                continue
            diag_only = r.random() < 0.15
            if diag_only:
                t = dict(k="Diag", dt=dt, d=[[r.randint(-5, 5), 0] for _ in range(n)])
                D = np.real(T.dense(t))
            elif r.random() < 0.35 and n >= 3:     # dominant diagonal: the relative-stderr rule stops before the cap
                t = dict(k="Dense", dt=dt, a=[[[r.randint(8, 12) if i == j else r.randint(-1, 1), 0] for j in range(n)] for i in range(n)])
                D = np.real(T.dense(t))
                k = 0
                mi = r.choice([8, 10, 12])
                tol = r.choice([0.03, 0.04, 0.05, 0.07]) * (1 + r.random())
        else:
            rs = np.random.RandomState(r.randint(0, 2 ** 31))
            D = rs.randn(n, n) * r.choice([0.1, 1.0, 10.0])
            if tier == "C":
                D = D + 1j * rs.randn(n, n)
            if tier == "B":
                mi = r.choice([1, 2, 3])
            if r.random() < 0.3:
                D = D @ D.T
            if r.random() < 0.35 and n >= 3 and tier == "F":
                D = np.diag(8 + 4 * rs.rand(n)) + 0.5 * rs.randn(n, n)
                k = 0
                mi = r.choice([8, 10, 12])
                tol = r.choice([0.03, 0.04, 0.05, 0.07]) * (1 + r.random())
            D = D.astype(dt).astype(np.complex128 if tier == "C" else np.float64)     # exactly representable in the operator's dtype
        return dict(tier=tier, n=n, k=k, max_iters=mi, tol=tol, key=key, dt=dt, tree=t,
                    D=D.tolist(), rand="rademacher" if tier == "Z" else r.choice(["normal", "normal", "rademacher"]))
    raise RuntimeError("generator starved")


def gen_long_case(ctx):
    """non-converging runs with caps straddling 64 / 100 / 128 / 200 / 256: integer operator with zero diagonal (the mean is
    ~0, so the relative standard error stays far above any admissible tolerance), Rademacher probes, exact tier"""
    r = ctx.rng
    n = r.choice([2, 2, 3])
    D = [[0 if i == j else r.choice([-3, -2, 2, 3]) for j in range(n)] for i in range(n)]
    mi = r.choice([63, 64, 65, 66, 70, 96, 100, 127, 128, 129, 130, 160, 200, 255, 256, 257])
    t = dict(k="Dense", dt="float64", a=[[[v, 0] for v in row] for row in D])
    return dict(tier="Z", n=n, k=r.choice([0, 0, 1 - n, n - 1]), max_iters=mi, tol=1.1e-3 * (1 + r.random()), key=None if r.random() < 0.3 else r.randint(0, 2 ** 31),
                dt="float64", tree=t, D=np.array(D, dtype=np.float64).tolist(), rand="rademacher", long=True)


def retype(t, dt):
    """all leaves of the tree in one real dtype"""
    t2 = dict(t)
    if "dt" in t2:
        t2["dt"] = dt
    if "ms" in t2:
        t2["ms"] = [retype(x, dt) for x in t["ms"]]
    if isinstance(t2.get("a"), dict):
        t2["a"] = retype(t["a"], dt)
    return t2


def build_op(case):
    if case["tree"] is not None:
        return T.build(retype(case["tree"], case["dt"]))
    return ops.Dense(np.array(case["D"], dtype=case["dt"]))


def run_impl(case):
    """public API only; the global generator is put in a known state first and inspected afterwards"""
    obs = {}
    try:
        A = build_op(case)
        rec = Recorder(A)
        np.random.seed(1234)
        s0 = np.random.get_state()
        out, info = hutchinson_diag_estimate(rec.op, case["k"], tol=case["tol"], max_iters=case["max_iters"], rand=case["rand"], key=case["key"])
        s1 = np.random.get_state()
        obs["state_same"] = bool(s0[0] == s1[0] and np.array_equal(s0[1], s1[1]) and s0[2:] == s1[2:])
        obs["ok"] = True
        obs["out"] = np.asarray(out)
        obs["iters"] = len(rec.seen)
        obs["info_iters"] = int(info["iterations"]) - 1
        obs["probes"] = rec.seen
        # the same call again, from another global state, without the recorder, and through diag(..., Hutch)
        np.random.seed(99)
        out2, _ = hutchinson_diag_estimate(A, case["k"], tol=case["tol"], max_iters=case["max_iters"], rand=case["rand"], key=case["key"])
        obs["repeat_same"] = bool(np.array_equal(np.asarray(out2), obs["out"], equal_nan=True))
        W2 = Recorder(A)
        out3 = cola.linalg.diag(W2.op, case["k"], Hutch(tol=case["tol"], max_iters=case["max_iters"], rand=case["rand"], key=case["key"]))
        obs["alg_same"] = bool(np.array_equal(np.asarray(out3), obs["out"], equal_nan=True))
    except Exception as e:  # an exception on a case the model accepts is a mismatch
        obs["ok"] = False
        obs["err"] = f"{type(e).__name__}: {e}"
    return obs


def oracle(case, obs):
    """independent of cola and of the Coq model: the clauses of the property on this call. Returns list of failed clauses."""
    bad = []
    if not obs.get("ok"):
        return [f"raised {obs.get('err')}"]
    n, k, mi = case["n"], case["k"], case["max_iters"]
    cplx = np.dtype(case["dt"]).kind == "c"
    wide = np.complex128 if cplx else np.float64
    D = np.array(case["D"], dtype=wide)
    it = obs["iters"]
    if not obs["state_same"]:
        bad.append("global numpy RNG state changed")
    if not obs["repeat_same"]:
        bad.append("a second call with the same key is not bit-identical")
    if not obs["alg_same"]:
        bad.append("diag(A,k,Hutch(..)) differs from hutchinson_diag_estimate with the same arguments")
    if not (1 <= it <= max(mi, 1)):
        bad.append(f"{it} probe blocks for max_iters={mi}")
    if obs["info_iters"] != it:
        bad.append(f"info['iterations']-1 = {obs['info_iters']} but {it} products were made")
    bs = min(100, n)
    tot = np.zeros(n - abs(k), dtype=wide)
    # the i*bs probes must be independent draws: two identical blocks have probability 0 (Gaussian) / 2^-(n*bs) (signs)
    blocks = obs["probes"]
    if case["rand"] == "normal":
        same = [(a, b) for a in range(len(blocks)) for b in range(a + 1, len(blocks)) if blocks[a].shape == blocks[b].shape and np.array_equal(blocks[a], blocks[b])]
    else:
        all_same = len(blocks) >= 2 and all(bl.shape == blocks[0].shape and np.array_equal(bl, blocks[0]) for bl in blocks[1:])
        same = [(0, len(blocks) - 1)] if all_same and n * bs * (len(blocks) - 1) >= 40 else []
    if same:
        bad.append(f"probe blocks of iterations {same[0][0]} and {same[0][1]} are identical: the {it}*{bs} probes are not independent draws, "
                   "so the estimate is not within the sampling error its own variance (stderr ~ 1/sqrt(i*bs)) implies")
    for t, z in enumerate(obs["probes"]):
        if z.shape != (n, bs):
            bad.append(f"probe block {t} has shape {z.shape}")
            return bad
        z = z.astype(wide)
        Az = D @ z
        rows = np.arange(n - abs(k)) + (abs(k) if k < 0 else 0)
        tot += (Az[rows] * z[rows + k]).sum(-1)
    want = tot / (it * bs)
    got = np.asarray(obs["out"], dtype=wide)
    tol = 1e-9 if case["dt"] in ("float64", "complex128") else 2e-4
    if got.shape != want.shape or not np.allclose(got, want, rtol=tol, atol=tol * (1 + np.abs(D).sum())):
        bad.append(f"estimate {got.tolist()} is not the mean of the per-probe estimators {want.tolist()}")
    if case["rand"] == "rademacher" and k == 0 and np.array_equal(D, np.diag(np.diag(D))):
        if not np.array_equal(got, np.diag(D)):
            bad.append("diagonal operator with Rademacher probes: estimate is not exactly the diagonal")
    return bad


def key_chain_ok(case, obs):
    """model-side fact (not a clause of the property): block t = randn(n, bs, key = next_key^(t+1)(key or PRNGKey(42))),
    signs of it for Rademacher probes. Uses a private generator and an independent re-implementation of the hash."""
    if not obs.get("ok"):
        return True
    n = case["n"]
    bs = min(100, n)
    key = sha_hash(42) if case["key"] is None else case["key"]
    for t, z in enumerate(obs["probes"]):
        key = sha_hash(key)
        ref = keyed_values(key, (n, bs)).astype(case["dt"])
        if case["rand"] == "rademacher":
            ref = np.sign(ref)
        if z.shape != (n, bs) or not np.array_equal(z, ref):
            return False
    return True


def coq_case(case, obs):
    n, bs = case["n"], min(100, case["n"])
    f32 = case["dt"] == "float32"
    if case["tier"] == "Z":
        lit = zlit
        A = [[int(v) for v in row] for row in case["D"]]
        P = [[[int(v) for v in row] for row in z.tolist()] for z in obs["probes"]]
        rel = "0x1p-17%float" if f32 else "0%float"
    else:
        lit = fhex
        A = case["D"]
        P = [z.astype(np.float64).tolist() for z in obs["probes"]]
        rel = "0x1p-12%float" if f32 else "0x1p-30%float"

    def mat(m):
        return "[" + ";".join("[" + ";".join(lit(v) for v in row) + "]" for row in m) + "]"
    return ("{| hn := %d%%nat; hk := %s; hmax := %d%%nat; htol := %s; hrel := %s; hA := %s; hP := [%s]; h_iters := %d%%nat; h_mean := [%s] |}"
            % (n, zlit(case["k"]), case["max_iters"], fhex(case["tol"]), rel, mat(A), ";".join(mat(p) for p in P),
               obs["iters"], ";".join(fhex(v) for v in np.asarray(obs["out"], dtype=np.float64).tolist())))


def eval_in_coq(tag, items, tier):
    """items: list of (case, obs) with obs ok. Returns (failing indices, near-tie indices, error text)"""
    ty = "Z" if tier == "Z" else "float"
    vd = "verdictZ" if tier == "Z" else "verdictF"
    margin = "0x1p-10%float"   # stopping decisions within 0.1% of the tolerance are not compared (float32 runs in cola)
    jobs, spans = [], []
    step = 150
    for s in range(0, len(items), step):
        chunk = items[s:s + step]
        body = ";\n".join(coq_case(c, o) for c, o in chunk)
        text = (HEADER + f"Definition cases : list (hcase {ty}) := [\n{body}].\n"
                f"Definition res := Eval vm_compute in classify ({vd} {margin}) 0%nat cases [] [].\n"
                "Print res.\n")
        jobs.append((f"c17_hutch_{tag}_{tier}_{s // step}", text))
        spans.append(s)
    outs = core.coqc_many(jobs, timeout=400)
    import re
    failing, ties = [], []
    for (rc, out), s in zip(outs, spans):
        m = re.search(r"res\s*=\s*\(\s*(\[[^\]]*\]|nil)\s*,\s*(\[[^\]]*\]|nil)\s*\)", out.replace("\n", " "))
        if rc != 0 or not m:
            return [], [], f"coqc failed (rc={rc}): {out[-1500:]}"

        def idx(txt):
            return [int(x) for x in re.findall(r"\d+", txt)]
        failing += [s + i for i in idx(m.group(1))]
        ties += [s + i for i in idx(m.group(2))]
    return failing, ties, None


def unbiased_ztest(ctx, n_ops, n_keys):
    """Statistical part (never a theorem): one probe block per call (no adaptive stopping), many keys; the mean of the
    estimates must be within 8 standard errors of the true diagonal. Returns (tests, failures)."""
    r = ctx.rng
    tests, fails = 0, []
    for _ in range(n_ops):
        n = r.randint(2, 5)
        rs = np.random.RandomState(r.randint(0, 2 ** 31))
        D = rs.randn(n, n)
        k = r.choice([0, 0, 1, -1])
        rand = r.choice(["normal", "rademacher"])
        A = ops.Dense(D)
        keys = [r.randint(0, 2 ** 31) for _ in range(n_keys)]
        est = np.array([hutchinson_diag_estimate(A, k, tol=0.5, max_iters=1, rand=rand, key=kk)[0] for kk in keys])
        true = np.diag(D, k)
        m, s = est.mean(0), est.std(0, ddof=1) / np.sqrt(n_keys)
        for i in range(len(true)):
            tests += 1
            if abs(m[i] - true[i]) > 8 * s[i] + 1e-12:
                fails.append(dict(D=D.tolist(), k=k, rand=rand, entry=i, mean=float(m[i]), true=float(true[i]), stderr=float(s[i])))
    return tests, fails


def variance_test(ctx, n_ops, n_keys, blocks=4):
    """Statistical part (never a theorem), the clause 'within the sampling error implied by its own variance': with `blocks`
    probe blocks per call, the variance of the estimate over many keys must be the analytic per-probe variance of the dense
    matrix divided by blocks*bs (Gaussian: 2 A_ii^2 + sum_{j!=i} A_ij^2, Rademacher: sum_{j!=i} A_ij^2). A loop that does not draw
    fresh, independent probes in every iteration has a variance `blocks` times larger. Returns (tests, failures)."""
    r = ctx.rng
    tests, fails = 0, []
    for _ in range(n_ops):
        n = r.randint(3, 5)
        rs = np.random.RandomState(r.randint(0, 2 ** 31))
        D = rs.randn(n, n)
        rand = r.choice(["normal", "rademacher"])
        A = ops.Dense(D)
        est = []
        for _k in range(n_keys):
            rec = Recorder(A)
            e, _ = hutchinson_diag_estimate(rec.op, 0, tol=1.1e-3, max_iters=blocks, rand=rand, key=r.randint(0, 2 ** 31))
            if len(rec.seen) == blocks:
                est.append(np.asarray(e))
        if len(est) < n_keys // 2:
            continue
        est = np.array(est)
        off = (D ** 2).sum(1) - np.diag(D) ** 2
        sigma2 = off + (2 * np.diag(D) ** 2 if rand == "normal" else 0)
        pred = sigma2 / (blocks * min(100, n))
        s2 = est.var(0, ddof=1)
        for i in range(n):
            tests += 1
            ratio = float(s2[i] / pred[i])
            if not (0.5 < ratio < 2.0):
                fails.append(dict(D=D.tolist(), rand=rand, entry=i, blocks=blocks, keys=len(est), sample_variance=float(s2[i]),
                                  variance_implied_by_independent_probes=float(pred[i]), ratio=ratio))
    return tests, fails
