"""Common machinery of every check: Coq build/re-check, in-Coq evaluation of generated case files,
known-findings protocol, replay files, evidence.  See DESIGN.md section 4."""
import os, sys, json, time, subprocess, re, random, fcntl, hashlib, glob, shutil

VERIF = os.path.dirname(os.path.dirname(os.path.abspath(__file__)))
COQ = os.path.join(VERIF, "coq")
RUN = os.path.join(VERIF, "run")
GEN = os.path.join(RUN, "gen")
REPLAY = os.path.join(RUN, "replay")   # re-pointed below for runs against a scratch copy
EVID = os.path.join(VERIF, "evidence")
KNOWN = os.path.join(VERIF, "KNOWN_FINDINGS.txt")
REPO = os.environ.get("COLA_REPO", "/repo")
if os.path.realpath(REPO) != "/repo":   # runs against scratch copies (seeded changes, mutants) keep their replays apart
    _h = hashlib.sha1(os.path.realpath(REPO).encode()).hexdigest()[:8]
    REPLAY = os.path.join(RUN, "replay_scratch", _h)
    GEN = os.path.join(RUN, "gen_scratch", _h)       # generated case files too (concurrent runs of one property)
# one directory of generated case files per process: two runs of the same property at the same time (another tier or seed)
# must not evaluate each other's files
GEN = os.path.join(GEN, f"p{os.getpid()}")
import atexit
atexit.register(lambda d=GEN: shutil.rmtree(d, ignore_errors=True))
PY = "/venv/bin/python"
NCPU = 16

# axioms of the standard library a property theorem may depend on (DESIGN.md section 6)
STDLIB_AXIOMS = {
    "ClassicalDedekindReals.sig_forall_dec", "ClassicalDedekindReals.sig_not_dec",
    "FunctionalExtensionality.functional_extensionality_dep",
    "Classical_Prop.classic",
}
FORBIDDEN = re.compile(r"\b(Admitted|admit|Axiom|Axioms|Parameter|Parameters|Conjecture|bypass_check)\b|Unset\s+Guard|Admit\s+Obligations|Unset\s+Universe|Unset\s+Positivity|type-in-type")


def sh(cmd, timeout=600, cwd=None, env=None):
    try:
        p = subprocess.run(cmd, shell=isinstance(cmd, str), cwd=cwd, env=env, capture_output=True, text=True, timeout=timeout)
        return p.returncode, p.stdout + p.stderr
    except subprocess.TimeoutExpired as e:
        out = (e.stdout or b"")
        if isinstance(out, bytes):
            out = out.decode(errors="replace")
        return 124, out + "\nTIMEOUT"


class Lock:
    def __init__(self, name):
        os.makedirs(RUN, exist_ok=True)
        self.path = os.path.join(RUN, name + ".lock")

    def __enter__(self):
        self.f = open(self.path, "w")
        fcntl.flock(self.f, fcntl.LOCK_EX)

    def __exit__(self, *a):
        fcntl.flock(self.f, fcntl.LOCK_UN)
        self.f.close()


def coq_gate():
    """No Admitted / Axiom / Parameter / switched-off checks anywhere in the development."""
    bad = []
    for f in sorted(glob.glob(os.path.join(COQ, "*.v"))):
        depth, in_str = 0, False
        for n, line in enumerate(open(f), 1):
            code, i = [], 0
            while i < len(line):          # strip (possibly nested, multi-line) comments; string literals are kept as code
                two = line[i:i + 2]
                if not in_str and two == "(*":
                    depth += 1
                    i += 2
                elif not in_str and depth and two == "*)":
                    depth -= 1
                    i += 2
                else:
                    if depth == 0:
                        if line[i] == '"':
                            in_str = not in_str
                        code.append(line[i])
                    i += 1
            if FORBIDDEN.search("".join(code)):
                bad.append(f"{os.path.basename(f)}:{n}: {line.strip()}")
    return bad


def build_coq(timeout=3000):
    """(Re)generate the translated tables from /repo and run a full .vo build (a no-op when up to date)."""
    with Lock("build"):
        os.makedirs(GEN, exist_ok=True)
        logs = []
        failed = {}
        for tr in sorted(glob.glob(os.path.join(VERIF, "harness", "translate_*.py"))):
            rc, out = sh([PY, tr], timeout=900, env=dict(os.environ, PYTHONPATH=REPO, PYTHONHASHSEED="0"))
            logs.append(out[-2000:])
            if rc != 0:   # fail closed for the properties that rest on this table, not for everybody
                failed[os.path.basename(tr)] = out[-3000:]
        build_coq.failed_translators = failed
        if not os.path.exists(os.path.join(COQ, "Makefile")) or os.path.getmtime(os.path.join(COQ, "Makefile")) < os.path.getmtime(os.path.join(COQ, "_CoqProject")):
            rc, out = sh("coq_makefile -f _CoqProject -o Makefile", cwd=COQ)
            if rc != 0:
                return False, out
        # -k: a file of another property that does not compile must not block this property's files;
        # whether this property's theorems hold is decided by compiling its Props file afterwards
        # per-file limit: one slow file of one property must not hold the build lock for everybody
        rc, out = sh(f"timeout {timeout} make -k -j{NCPU} COQC='timeout 600 coqc'", cwd=COQ, timeout=timeout + 60)
        return True, out[-4000:]


TRANSLATOR_OWNERS = {"translate_promote.py": ("C01",), "translate_c04_rules.py": ("C04", "C19")}


def translator_failure(pid):
    """text of the failure of a translator this property rests on, or None"""
    for name, log in getattr(build_coq, "failed_translators", {}).items():
        if pid in TRANSLATOR_OWNERS.get(name, (pid,)):
            return f"translator {name} failed (the model can no longer be regenerated from the source):\n{log}"
    return None


def coqc_text(name, text, timeout=600):
    """Compile a generated file under run/gen; returns (rc, output)."""
    os.makedirs(GEN, exist_ok=True)
    path = os.path.join(GEN, name + ".v")
    with open(path, "w") as f:
        f.write(text)
    rc, out = sh(f"ulimit -s unlimited 2>/dev/null; timeout {timeout} coqc -q -Q {COQ} Core -Q {GEN} Gen {path}", timeout=timeout + 30, cwd=GEN)
    for ext in (".vo", ".glob", ".vok", ".vos"):
        try:
            os.remove(os.path.join(GEN, name + ext))
        except OSError:
            pass
    try:
        os.remove(os.path.join(GEN, "." + name + ".aux"))
    except OSError:
        pass
    return rc, out


def coqc_many(jobs, timeout=600):
    """jobs: list of (name, text); compiled in parallel. Returns list of (rc, out)."""
    from concurrent.futures import ThreadPoolExecutor
    with ThreadPoolExecutor(max_workers=NCPU) as ex:
        return list(ex.map(lambda nt: coqc_text(nt[0], nt[1], timeout), jobs))


def check_props_file(pid, extra_allowed=()):
    """Re-compile coq/Props<pid>.v (it holds only `Theorem ... exact lemma. Qed.` + Print Assumptions),
    parse the Print Assumptions blocks. Returns dict(ok, theorems, axioms, log)."""
    src = os.path.join(COQ, f"Props{pid}.v")
    text = open(src).read()
    thms = re.findall(r"^\s*(?:Theorem|Lemma|Example|Corollary)\s+([\w']+)", text, flags=re.M)
    rc, out = coqc_text(f"Props{pid}_chk", text, timeout=900)
    axioms = set()
    blocks = out.count("Closed under the global context")
    for blk in re.split(r"\n(?=Axioms:)", out):
        if blk.startswith("Axioms:") or "\nAxioms:" in blk:
            for m in re.finditer(r"^([A-Za-z_][\w.']*)\s*\n?\s*:", blk, flags=re.M):
                axioms.add(m.group(1))
    axioms.discard("Axioms")
    allowed = STDLIB_AXIOMS | set(extra_allowed)
    bad_ax = sorted(a for a in axioms if a not in allowed and a.split(".")[-1] not in {x.split(".")[-1] for x in allowed})
    n_print = len(re.findall(r"^\s*Print Assumptions", text, flags=re.M))
    ok = (rc == 0) and not bad_ax
    return dict(ok=ok, rc=rc, theorems=thms, axioms=sorted(axioms), bad_axioms=bad_ax, closed_blocks=blocks, print_assumptions=n_print, log=out[-3000:])


def coqchk_props(pid, extra_allowed=(), timeout=2400):
    """thorough tier: re-check the compiled property file and everything it depends on with the independent checker
    coqchk, and read the axioms it reports. Returns dict(ok, axioms, log)."""
    d = os.path.join(RUN, "coqchk", pid)
    shutil.rmtree(d, ignore_errors=True)
    os.makedirs(d)
    shutil.copy(os.path.join(COQ, f"Props{pid}.v"), d)
    rc, out = sh(f"timeout 900 coqc -q -Q {COQ} Core -Q {d} Chk {d}/Props{pid}.v", timeout=960, cwd=d)
    if rc != 0:
        return dict(ok=False, axioms=[], log="coqc failed before coqchk:\n" + out[-1500:])
    rc, out = sh(f"timeout {timeout} coqchk -o -silent -Q {COQ} Core -Q {d} Chk Chk.Props{pid}", timeout=timeout + 60, cwd=d)
    shutil.rmtree(d, ignore_errors=True)
    axioms = []
    m = re.search(r"\* Axioms:(.*?)\n\s*\n\* Constants/Inductives relying on type-in-type", out, flags=re.S)
    if m and "<none>" not in m.group(1):
        axioms = [a.strip() for a in m.group(1).strip().splitlines() if a.strip()]
    allowed = STDLIB_AXIOMS | set(extra_allowed)
    tails = {x.split(".")[-1] for x in allowed}
    bad = [a for a in axioms if a.split(".")[-1] not in tails and not a.startswith("Coq.")]
    unsafe = [k for k in ("type-in-type", "unsafe (co)fixpoints", "positivity is assumed") if re.search(re.escape(k) + r":\s*(?!<none>)\S", out)]
    ok = rc == 0 and not bad and not unsafe
    return dict(ok=ok, axioms=axioms, bad=bad, unsafe=unsafe, log=out[-1500:])


def parse_known():
    known, fixed = [], []
    if os.path.exists(KNOWN):
        for line in open(KNOWN):
            line = line.strip()
            if not line or line.startswith("#"):
                continue
            m = re.match(r"(known|fixed):\s+property=(\w+)\s+(.*)", line)
            if not m:
                continue
            kind, pid, rest = m.groups()
            fm = re.search(r"flag=(\S+)", rest)
            ent = dict(property=pid, flag=fm.group(1) if fm else None, text=rest)
            (known if kind == "known" else fixed).append(ent)
    return known, fixed


class Ctx:
    def __init__(self, pid, tier, seed):
        self.pid, self.tier, self.seed = pid, tier, seed
        self.t0 = time.time()
        self.rng = random.Random(f"{pid}:{seed}")
        self.notes = []

    def budget(self, quick, thorough):
        return thorough if self.tier == "thorough" else quick


def write_replay(pid, n, payload):
    os.makedirs(REPLAY, exist_ok=True)
    path = os.path.join(REPLAY, f"{pid}_{n}.json")
    with open(path, "w") as f:
        json.dump(payload, f, indent=1, default=str)
    return path


def conclude(ctx, proof, res, trusted_base, assumptions):
    """Apply the verdict protocol. `proof` from check_props_file (+ build state); `res` from the property module:
       evaluations, distinct_nontrivial, rule, samples, mismatches (list of dicts, each with 'oracle_fail'),
       findings (list of dict(flag, present, witness, what)), extra (dict)."""
    pid = ctx.pid
    known, fixed = parse_known()
    known_flags = {k["flag"] for k in known if k["property"] == pid}
    lines, nviol, nrep = [], 0, 0
    for old in glob.glob(os.path.join(REPLAY, f"{pid}_*.json")):
        os.remove(old)
    kf_printed = []
    for f in res.get("findings", []):
        if not f.get("present"):
            continue
        if f["flag"] in known_flags:
            lines.append(f"KNOWN-FINDING: property={pid} flag={f['flag']} {f['what']}")
            kf_printed.append(f["flag"])
        else:
            path = write_replay(pid, nrep, dict(property=pid, kind="failing-input", flag=f["flag"], case=f.get("witness"),
                                               expected=f.get("expected"), got=f.get("got"), what=f["what"], seed=ctx.seed,
                                               cmd=f"./check {pid} --replay <this file>"))
            nrep += 1
            nviol += 1
            lines.append(f"VIOLATION property={pid} replay={path}")
    mism = res.get("mismatches", [])
    real = [m for m in mism if m.get("oracle_fail", True)]
    soft = [m for m in mism if not m.get("oracle_fail", True)]
    for m in real[:5]:
        path = write_replay(pid, nrep, dict(property=pid, kind="failing-input", seed=ctx.seed, cmd=f"./check {pid} --replay <this file>", **m))
        nrep += 1
        nviol += 1
        lines.append(f"VIOLATION property={pid} replay={path}")
    if soft and not real:
        path = write_replay(pid, nrep, dict(property=pid, kind="broken-correspondence", seed=ctx.seed,
                                           note="model and implementation disagree on these cases but the independent oracle finds no violation of the property on them",
                                           cases=soft[:5]))
        nrep += 1
        nviol += 1
        lines.append(f"VIOLATION property={pid} replay={path} no-failing-input-found")
    if not proof["ok"]:
        found_input = any(l.startswith("VIOLATION") and not l.endswith("no-failing-input-found") for l in lines)
        if not found_input:
            path = write_replay(pid, nrep, dict(property=pid, kind="broken-theorem", theorem_file=f"coq/Props{pid}.v",
                                               theorems=proof.get("theorems"), bad_axioms=proof.get("bad_axioms"),
                                               gate=proof.get("gate"), log=proof.get("log"), seed=ctx.seed))
            nrep += 1
            lines.append(f"VIOLATION property={pid} replay={path} no-failing-input-found")
        nviol += 1
    wall = time.time() - ctx.t0
    nth = len(proof.get("theorems", []))
    cov = dict(
        obligations=max(nth, 1), discharged=(nth if proof["ok"] else 0),
        checker_cmd=f"make -C coq (full .vo build of the model and lemma files) && coqc coq/Props{pid}.v with Print Assumptions parsed",
        trusted_base=trusted_base,
        theorems=proof.get("theorems", []), axioms_reported=proof.get("axioms", []),
        coqchk=(dict(ok=proof.get("coqchk_ok"), axioms=proof.get("coqchk_axioms")) if "coqchk_ok" in proof else "quick tier: coqchk runs in the thorough tier"),
        evaluations=int(res.get("evaluations", 0)), distinct_nontrivial=int(res.get("distinct_nontrivial", 0)),
        rule=res.get("rule", ""), samples=res.get("samples", [])[:5] or ["(no correspondence cases in this run)"],
        known_findings_printed=kf_printed,
        flags_probed={f["flag"]: bool(f.get("present")) for f in res.get("findings", [])},
        mismatches=len(mism),
    )
    cov.update(res.get("extra", {}))
    ev = dict(property_id=pid, tier=ctx.tier, seed=ctx.seed, level="proof", coverage=cov,
              assumptions=assumptions, wall_s=round(wall, 2), violations=nviol)
    # evidence under /verif/evidence is only ever written by runs against /repo itself; runs against a scratch copy
    # (COLA_REPO=..., used for seeded changes and mutants) write theirs under run/
    evdir = EVID if os.path.realpath(REPO) == "/repo" else os.path.join(RUN, "evidence_scratch")
    os.makedirs(evdir, exist_ok=True)
    with open(os.path.join(evdir, f"{pid}.json"), "w") as f:
        json.dump(ev, f, indent=1, default=str)
    for l in lines:
        print(l)
    print(f"[{pid}] tier={ctx.tier} seed={ctx.seed} theorems={nth} proof_ok={proof['ok']} cases={cov['evaluations']} "
          f"mismatches={len(mism)} known={len(kf_printed)} violations={nviol} wall={wall:.1f}s")
    return 1 if nviol else 0


def digest(obj):
    return hashlib.sha1(json.dumps(obj, sort_keys=True, default=str).encode()).hexdigest()[:16]
