"""C18: operator pool with known caller-owned arrays, the per-kind array parameters (DESIGN.md C18 'Reading of the
statement'), leaf substitution, structure terms for the Coq aliasing functions."""
import copy
import numpy as np
import shim  # noqa: F401
import cola
from cola import ops
import trees as T


PRE = {}      # id(array) -> (array, snapshot taken before it was handed to a cola constructor)


def pre_snaps(arrays):
    return [PRE[id(a)][1] for a in arrays]


def build_rec(t, arrays):
    """like trees.build, but every array handed to a cola constructor is recorded in `arrays` (caller-owned)"""
    k = t["k"]

    def keep(a):
        arrays.append(a)
        PRE[id(a)] = (a, (a.tobytes(), a.dtype.str, a.shape))      # bytes BEFORE the constructor sees the array
        return a
    if k == "Dense":
        return ops.Dense(keep(T.arr(t["a"], t["dt"])))
    if k == "Tri":
        return ops.Triangular(keep(T.arr(t["a"], t["dt"])), lower=t["lower"])
    if k == "Sparse":
        ent = t["ent"]
        return ops.Sparse(keep(T.vec([e[2] for e in ent], t["dt"])), keep(np.array([e[0] for e in ent], dtype=np.int64)),
                          keep(np.array([e[1] for e in ent], dtype=np.int64)), (t["m"], t["n"]))
    if k == "Diag":
        return ops.Diagonal(keep(T.vec(t["d"], t["dt"])))
    if k == "Ident":
        return ops.Identity((t["n"], t["n"]), T.npdt(t["dt"]))
    if k == "Scal":
        v = T.c(t["c"])
        return ops.ScalarMul(v if t["dt"] in T.CPLX else v.real, (t["n"], t["n"]), T.npdt(t["dt"]))
    if k == "Perm":
        return ops.Permutation(keep(np.array(t["p"], dtype=np.int64)), T.npdt(t["dt"]))
    if k == "Tridiag":
        return ops.Tridiagonal(keep(T.vec(t["al"], t["dt"])), keep(T.vec(t["be"], t["dt"])), keep(T.vec(t["ga"], t["dt"])))
    if k == "House":
        b = T.c(t["beta"])
        return ops.Householder(keep(T.vec(t["v"], t["dt"]).reshape(-1, 1)), b if t["dt"] in T.CPLX else b.real)
    if k in ("Sum", "Prod", "Kron", "KronSum"):
        cls = dict(Sum=ops.Sum, Prod=ops.Product, Kron=ops.Kronecker, KronSum=ops.KronSum)[k]
        return cls(*[build_rec(x, arrays) for x in t["ms"]])
    if k == "BDiag":
        return ops.BlockDiag(*[build_rec(x, arrays) for x in t["ms"]], multiplicities=list(t["mu"]))
    if k == "Transp":
        return ops.Transpose(build_rec(t["a"], arrays))
    if k == "Adj":
        return ops.Adjoint(build_rec(t["a"], arrays))
    if k == "Sliced":
        def sl(idx):
            s = T.range_slice(idx)
            return s if s is not None else keep(np.array(idx, dtype=np.int64))
        return ops.Sliced(build_rec(t["a"], arrays), (sl(t["rs"]), sl(t["cs"])))
    if k == "Concat":
        return ops.Concatenated(*[build_rec(x, arrays) for x in t["ms"]], axis=t["axis"])
    raise AssertionError(k)


def subtrees(t):
    return t.get("ms") or ([t["a"]] if isinstance(t.get("a"), dict) else [])


def has_index_arrays(t):
    if t["k"] == "Sliced" and (T.range_slice(t["rs"]) is None or T.range_slice(t["cs"]) is None):
        return True
    return any(has_index_arrays(x) for x in subtrees(t))


# attribute names that hold the array parameters of each kind, in the (sorted-name) order tree_flatten uses
PARAM_ATTRS = dict(Dense=["A"], Tri=["A"], Sparse=["col_indices", "data", "row_indices"], Diag=["diag"], Ident=[], Scal=["c"],
                   Perm=["perm"], Tridiag=["alpha", "beta", "gamma"], House=["beta", "vec"])
# tree field carrying the payload of each such attribute
PARAM_FIELD = dict(A="a", diag="d", c="c", perm="p", alpha="al", beta=None, gamma="ga", vec="v", data="ent", col_indices="ent", row_indices="ent")


def expected_leaves(t, A):
    """SPEC: the array parameters of operator A (built from tree t), recursively, as (object, owner tree, attribute)"""
    k = t["k"]
    if k in PARAM_ATTRS:
        return [(getattr(A, n), t, n) for n in PARAM_ATTRS[k]]
    if k in ("Sum", "Prod", "Kron", "KronSum", "BDiag", "Concat"):
        out = []
        for x, M in zip(t["ms"], A.Ms):
            out += expected_leaves(x, M)
        return out
    if k in ("Transp", "Adj"):
        return expected_leaves(t["a"], A.A)
    if k == "Sliced":
        out = expected_leaves(t["a"], A.A)
        for j, s in enumerate(A.slices):
            if isinstance(s, np.ndarray):
                out.append((s, t, ("rs", "cs")[j]))
        return out
    raise AssertionError(k)


def substituted(t, owner, attr, leaf):
    """(new leaf, deep-copied tree with the payload of (owner, attr) changed accordingly). None if not supported."""
    t2 = copy.deepcopy(t)
    # find the copy of `owner` inside t2 by walking both trees in lockstep
    def find(a, b):
        if a is owner:
            return b
        for x, y in zip(subtrees(a), subtrees(b)):
            r = find(x, y)
            if r is not None:
                return r
        return None
    o2 = find(t, t2)
    k = owner["k"]
    if attr == "A":
        o2["a"] = [[[v[0] + 1, v[1]] for v in row] for row in o2["a"]]
        if k == "Tri":       # keep the triangle: only entries inside it change
            lower = owner["lower"]
            n = len(o2["a"])
            new = leaf.copy()
            for i in range(n):
                for j in range(len(o2["a"][i])):
                    if (j <= i) if lower else (j >= i):
                        new[i, j] += 1
                    else:
                        o2["a"][i][j] = [owner["a"][i][j][0], owner["a"][i][j][1]]
            return new, t2
        return leaf + 1, t2
    if attr == "diag":
        o2["d"] = [[v[0] + 1, v[1]] for v in o2["d"]]
        return leaf + 1, t2
    if attr == "c":
        o2["c"] = [o2["c"][0] + 1, o2["c"][1]]
        return leaf + 1, t2
    if attr == "perm":
        p = list(o2["p"])
        p = p[1:] + p[:1]
        o2["p"] = p
        return np.array(p, dtype=leaf.dtype), t2
    if attr in ("alpha", "gamma"):
        f = "al" if attr == "alpha" else "ga"
        o2[f] = [[v[0] + 1, v[1]] for v in o2[f]]
        return leaf + 1, t2
    if attr == "beta" and k == "Tridiag":
        o2["be"] = [[v[0] + 1, v[1]] for v in o2["be"]]
        return leaf + 1, t2
    if attr == "beta" and k == "House":
        o2["beta"] = [o2["beta"][0] + 1, o2["beta"][1]]
        return leaf + 1, t2
    if attr == "vec":
        o2["v"] = [[v[0] + 1, v[1]] for v in o2["v"]]
        return leaf + 1, t2
    if attr == "data":      # the operator holds data sorted by row (stable for already sorted input); add 1 to every value
        o2["ent"] = [[i, j, [v[0] + 1, v[1]]] for i, j, v in o2["ent"]]
        return leaf + 1, t2
    return None


KT = dict(Ident="KIdent", Dense="KDense", Tri="KTri", Diag="KDiag")
KN = dict(Prod="KProd", Kron="KKron", Sum="KSum", BDiag="KBDiag", KronSum="KKronSum", Concat="KConcat")
KU = dict(Transp="KTransp", Adj="KAdj", Sliced="KSliced")


def ktree(t):
    k = t["k"]
    if k in KT:
        return KT[k]
    if k in KN:
        return f"({KN[k]} [" + ";".join(ktree(x) for x in t["ms"]) + "])"
    if k in KU:
        return f"({KU[k]} {ktree(t['a'])})"
    return "KOther"


def ann_names(A):
    return sorted(a.__name__ for a in A.annotations)


def make_pool(rnd, n_ops, present_c01=("sparse_unsorted_cols", "concat_assert_wrong_axis", "sliced_index_array_cpu", "kronsum_inplace_dtype")):
    """pool entries: dict(tree, op, arrays, base (bytes of to_dense at creation), ann, shape, dtype).
    Every kind appears at least once; regions spoiled by recorded findings of C01 are avoided (they are not this property's subject)."""
    gen = T.Gen(rnd, maxdim=3)
    gen.sparse_sorted = "sparse_unsorted_cols" in present_c01
    gen.concat_equal = "concat_assert_wrong_axis" in present_c01
    pool, rejected = [], 0
    want = list(T.LEAF + T.COMP)
    tries = 0
    while (len(pool) < n_ops or want) and tries < 4000:
        tries += 1
        cplx = rnd.random() < 0.3
        if want:
            k = want[0]
            shape = (rnd.randint(2, 3),) * 2 if k not in ("Kron", "BDiag", "KronSum", "Dense", "Sparse", "Concat", "Sliced") else None
            if k in T.LEAF:
                t = None
                for _ in range(60):
                    t = gen.leaf(shape or (rnd.randint(1, 3), rnd.randint(1, 3)), cplx)
                    if t["k"] == k:
                        break
                if t["k"] != k:
                    continue
            else:
                t = None
                for _ in range(200):
                    t = gen.tree(2, shape, cplx)
                    if t["k"] == k:
                        break
                if t["k"] != k:
                    continue
        else:
            t = gen.tree(rnd.randint(0, 2), None if rnd.random() < 0.5 else (rnd.randint(2, 3),) * 2, cplx)
        m, n = T.shape(t)
        if m == 0 or n == 0 or m * n > 64:
            continue
        if "sliced_index_array_cpu" in present_c01 and has_index_arrays(t):
            continue
        if "kronsum_inplace_dtype" in present_c01 and "KronSum" in T.kinds_of(t):
            dts = set()

            def coll(x):
                if "dt" in x:
                    dts.add(x["dt"])
                for y in subtrees(x):
                    coll(y)
            coll(t)
            if len(dts) > 1:
                continue
        arrays = []
        try:
            A = build_rec(t, arrays)
            base = np.asarray(A.to_dense())
            if base.shape != (m, n) or not np.array_equal(base.astype(np.complex128), T.dense(t)):
                rejected += 1
                continue
        except Exception:
            rejected += 1
            continue
        if want and t["k"] == want[0]:
            want.pop(0)
        pool.append(dict(tree=t, op=A, arrays=arrays, snaps=pre_snaps(arrays), base=base.copy(), ann=ann_names(A), shape=(m, n), dtype=str(np.dtype(A.dtype))))
    return pool, rejected


# ---------------------------------------------------------------- alias-prone composites
def alias_prone_trees(rnd):
    """composites whose FIRST / MIDDLE / LAST child is an operator whose product may return (a view of) its argument
    (Identity, Product(I,I), Transpose(Transpose(I))), for every composite kind, with Dense / Diagonal siblings"""
    def I(n, dt="float64"):
        return dict(k="Ident", dt=dt, n=n)

    def Dn(m, n, dt="float64"):
        return dict(k="Dense", dt=dt, a=[[[rnd.randint(-3, 3), 0] for _ in range(n)] for _ in range(m)])

    def Dg(n, dt="float64"):
        return dict(k="Diag", dt=dt, d=[[rnd.randint(1, 4), 0] for _ in range(n)])
    out = []
    for dt in ("float64", "float32"):
        aliasers = [lambda n: I(n, dt), lambda n: dict(k="Prod", ms=[I(n, dt), I(n, dt)]), lambda n: dict(k="Transp", a=dict(k="Transp", a=I(n, dt)))]
        for mk in aliasers[: (3 if dt == "float64" else 1)]:
            for n in (2, 3):
                sib = [Dn(n, n, dt), Dg(n, dt)]
                for pos in (0, 1, 2):
                    three = list(sib)
                    three.insert(pos, mk(n))
                    two = [mk(n), sib[0]] if pos == 0 else ([sib[0], mk(n)] if pos == 2 else None)
                    for kind in ("KronSum", "Kron", "Sum", "Prod", "BDiag", "Concat"):
                        for ms in ([three] + ([two] if two else [])):
                            if kind == "Kron" and len(ms) == 3 and n == 3:
                                continue      # 27 x 27: keep the pool small
                            t = dict(k=kind, ms=[dict(x) for x in ms])
                            if kind == "BDiag":
                                t["mu"] = [1 + (i % 2) for i in range(len(ms))]
                            if kind == "Concat":
                                t["axis"] = 0
                            out.append(t)
                out.append(dict(k="Transp", a=mk(n)))
                out.append(dict(k="Adj", a=mk(n)))
                out.append(dict(k="Sliced", a=mk(n), rs=list(range(n)), cs=list(range(n))))
                out.append(dict(k="KronSum", ms=[mk(n), mk(2)]))
                out.append(dict(k="Kron", ms=[mk(n), mk(1)]))
                out.append(dict(k="Sum", ms=[mk(n), mk(n)]))
    return out


def reordered_slice_trees(rnd):
    """Sliced operators whose selectors keep EVERY row and/or column of the parent but in another order (reversed slices,
    permutation index arrays), and mixed full/subset selectors, over every parent kind"""
    def V(dt):
        return [rnd.randint(-3, 3), rnd.randint(-2, 2) if dt.startswith("complex") else 0]

    def Dn(m, n, dt):
        return dict(k="Dense", dt=dt, a=[[V(dt) for _ in range(n)] for _ in range(m)])

    def parents(dt):
        I3 = dict(k="Ident", dt=dt, n=3)
        D3, D23, D32 = Dn(3, 3, dt), Dn(2, 3, dt), Dn(3, 2, dt)
        return [D3, D23, D32,
                dict(k="Diag", dt=dt, d=[V(dt) for _ in range(3)]), I3,
                dict(k="Tri", dt=dt, a=[[V(dt) if j <= i else [0, 0] for j in range(3)] for i in range(3)], lower=True),
                dict(k="Scal", dt=dt, c=[2, 0], n=3), dict(k="Perm", dt=dt, p=[2, 0, 1]),
                dict(k="Tridiag", dt=dt, al=[V(dt), V(dt)], be=[V(dt), V(dt), V(dt)], ga=[V(dt), V(dt)]),
                dict(k="House", dt=dt, v=[V(dt), V(dt), V(dt)], beta=[2, 0]),
                dict(k="Sparse", dt=dt, m=3, n=3, ent=[[0, 1, V(dt)], [1, 0, V(dt)], [2, 2, V(dt)]]),
                dict(k="Sum", ms=[Dn(3, 3, dt), I3]), dict(k="Prod", ms=[Dn(3, 2, dt), Dn(2, 3, dt)]), dict(k="Prod", ms=[I3, I3]),
                dict(k="Kron", ms=[I3, dict(k="Ident", dt=dt, n=1)]), dict(k="Kron", ms=[Dn(1, 3, dt), Dn(3, 1, dt)]),
                dict(k="BDiag", ms=[Dn(2, 2, dt), Dn(1, 1, dt)], mu=[1, 1]), dict(k="Transp", a=Dn(2, 3, dt)), dict(k="Adj", a=Dn(3, 3, dt)),
                dict(k="KronSum", ms=[Dn(3, 3, dt), Dn(1, 1, dt)]), dict(k="Concat", axis=0, ms=[Dn(1, 3, dt), Dn(2, 3, dt)]),
                dict(k="Sliced", a=Dn(3, 3, dt), rs=[0, 1, 2], cs=[2, 1, 0]), dict(k="Transp", a=dict(k="Transp", a=I3))]

    def sels(m):
        ident, rev = list(range(m)), list(range(m))[::-1]
        out = [("id", ident), ("rev", rev)]
        if m >= 3:
            out.append(("perm", ident[1:] + ident[:1]))          # not an arithmetic progression: an index array
            out.append(("perm2", [1, 0] + ident[2:]))
            out.append(("neg", [-1, 0, -2] + ident[3:]))           # negative entries in a caller-owned index array
        out.append(("sub", ident[:max(1, m - 1)]))
        return out
    trees = []
    for dt in ("float64", "float32", "complex128"):
        for par in parents(dt):
            m, n = T.shape(par)
            for rn, rs in sels(m):
                for cn, cs in sels(n):
                    if (rn, cn) == ("id", "id") or (rn == "sub" and cn == "sub"):
                        continue
                    if dt != "float64" and not ({rn, cn} & {"rev", "perm", "neg"}):
                        continue
                    trees.append(dict(k="Sliced", a=copy.deepcopy(par), rs=list(rs), cs=list(cs)))
    return trees


def entry_of(t):
    arrays = []
    A = build_rec(t, arrays)
    base = np.asarray(A.to_dense())
    return dict(tree=t, op=A, arrays=arrays, snaps=pre_snaps(arrays), base=base.copy(), ann=ann_names(A), shape=tuple(A.shape), dtype=str(np.dtype(A.dtype)))
