"""C18: the class-level attribute registry is process-global, so its behaviour is observed in FRESH interpreters:
a script of class definitions / constructions is run in a subprocess, which reports, for every operator object created,
its attributes (abstracted to array / operator / tuple / None / other) in assignment order and the leaves flatten()
returned right after construction and again at the end. The Coq machine (coq/C18_Registry.v) replays the same events."""
import json, os, subprocess, sys, re
import core

HEADER = ("From Coq Require Import List String Bool Arith.\nFrom Core Require Import C18_Registry C18_Sigs C18_Exec.\n"
          "Import ListNotations.\nOpen Scope string_scope.\nOpen Scope list_scope.\n")

CHILD = r'''
import sys, json
sys.path.insert(0, %(harness)r)
import shim
import numpy as np, cola
from cola import ops
from cola.ops import LinearOperator
spec = json.loads(sys.stdin.read())
arrs = []
def aid(a):
    for i, b in enumerate(arrs):
        if a is b:
            return i
    arrs.append(a)
    return len(arrs) - 1
def enc(v):
    if isinstance(v, np.ndarray): return ["arr", aid(v)]
    if isinstance(v, LinearOperator): return ["op", type(v).__name__, [[k, enc(x)] for k, x in sorted(vars(v).items())]]
    if v is None: return ["none"]
    if isinstance(v, (tuple, list)): return ["tup", [enc(x) for x in v]]
    if isinstance(v, dict): return ["tup", [enc(v[k]) for k in sorted(v)]]
    return ["atom", type(v).__name__]
def leafdesc(l):
    return ["arr", aid(l)] if isinstance(l, np.ndarray) else ["atom", type(l).__name__]
def all_classes(c, acc):
    for s in c.__subclasses__():
        if "[" not in s.__name__ and s.__name__ not in [a[0] for a in acc]:
            acc.append([s.__name__, c.__name__])
            all_classes(s, acc)
    return acc
events = [{"decl": d} for d in all_classes(LinearOperator, [])]
seen, objs = [], []
def walk(v):
    """new operator objects reachable from v, children first"""
    if isinstance(v, LinearOperator):
        if any(v is s for s in seen): return
        seen.append(v)
        for k, x in vars(v).items(): walk(x)
        events.append({"cons": {"cls": type(v).__name__, "parent": type(v).__mro__[1].__name__,
                                "assigns": [[k, enc(x)] for k, x in vars(v).items()]},
                       "now": [leafdesc(l) for l in v.flatten()[0]]})
        objs.append(v)
    elif isinstance(v, (tuple, list)):
        for x in v: walk(x)
    elif isinstance(v, dict):
        for x in v.values(): walk(x)
user = {}
def A(n, dt="float64"): return (np.arange(n * n, dtype=dt).reshape(n, n) + 1)
def V(n): return np.arange(n, dtype="float64") + 1
def mk(s):
    k = s[0]
    if k == "Dense": return ops.Dense(A(s[1]))
    if k == "Tri": return ops.Triangular(np.tril(A(s[1])))
    if k == "Diag": return ops.Diagonal(V(s[1]))
    if k == "Ident": return ops.Identity((s[1], s[1]), np.float64)
    if k == "Scal": return ops.ScalarMul(2.0, (s[1], s[1]), np.float64)
    if k == "Perm": return ops.Permutation(np.arange(s[1])[::-1].copy())
    if k == "Tridiag": return ops.Tridiagonal(V(s[1] - 1), V(s[1]), V(s[1] - 1))
    if k == "House": return ops.Householder(V(s[1]).reshape(-1, 1), 2.0)
    if k == "Sparse": return ops.Sparse(V(2), np.array([0, 1]), np.array([1, 0]), (2, 2))
    if k in ("Prod", "Sum", "Kron", "KronSum"):
        return dict(Prod=ops.Product, Sum=ops.Sum, Kron=ops.Kronecker, KronSum=ops.KronSum)[k](*[mk(x) for x in s[1]])
    if k == "BDiag":
        ms = [mk(x) for x in s[1]]
        mult = [1 + (i %% 2) for i in range(len(ms))]
        return ops.BlockDiag(*ms, multiplicities=(np.array(mult) if s[2] == "array" else mult))
    if k == "Transp": return ops.Transpose(mk(s[1]))
    if k == "Adj": return ops.Adjoint(mk(s[1]))
    if k == "Sliced":
        B = mk(s[1])
        sl = (slice(0, 1), slice(None)) if s[2] == "slice" else (np.array([0]), slice(None))
        return ops.Sliced(B, sl)
    if k == "Concat": return ops.Concatenated(*[mk(x) for x in s[1]], axis=0)
    if k == "Generic": return LinearOperator(np.float64, (s[1], s[1]), matmat=lambda X: X)
    if k == "PSD": return cola.PSD(mk(s[1]))
    if k == "Lazy": return mk(s[1]) @ mk(s[2])          # through the public combinators
    if k == "Add": return mk(s[1]) + mk(s[2])
    if k == "Scale": return 3.0 * mk(s[1])
    if k == "User":
        cls = user[s[1]]
        w = {"array": lambda: V(2), "none": lambda: None, "float": lambda: 1.5, "tuple_arr": lambda: (V(2), 3),
             "tuple_plain": lambda: (1, 2), "op": lambda: ops.Diagonal(V(2)), "opt_ident": lambda: ops.Identity((2, 2), np.float64)}[s[2]]()
        return cls(w)
    raise AssertionError(s)
def defclass(name, parent):
    base = LinearOperator if parent == "LinearOperator" else user[parent]
    def __init__(self, w):
        self.w = w
        LinearOperator.__init__(self, np.float64, (2, 2))
    def _matmat(self, X):
        return X
    user[name] = type(base)(name, (base,), {"__init__": __init__, "_matmat": _matmat})
    events.append({"decl": [name, parent]})
errors = []
def partials(e):
    """operator objects whose __init__ was running when the exception passed through: their assignments so far did
    reach the class registry"""
    tb, found = e.__traceback__, []
    while tb is not None:
        fr = tb.tb_frame
        o = fr.f_locals.get("self")
        if fr.f_code.co_name == "__init__" and isinstance(o, LinearOperator) and not any(o is x for x in found) and not any(o is x for x in seen):
            found.append(o)
        tb = tb.tb_next
    for o in reversed(found):            # innermost first
        seen.append(o)
        for k, x in vars(o).items(): walk(x)
        events.append({"partial": {"cls": type(o).__name__, "parent": type(o).__mro__[1].__name__,
                                   "assigns": [[k, enc(x)] for k, x in vars(o).items()]}})
for st in spec:
    try:
        if st[0] == "defclass":
            defclass(st[1], st[2])
        else:
            walk(mk(st))
    except Exception as e:
        errors.append([st, type(e).__name__ + ": " + str(e)[:200]])
        partials(e)
end = [[leafdesc(l) for l in o.flatten()[0]] for o in objs]
print("RESULT" + json.dumps({"events": events, "end": end, "errors": errors}))
'''


C01_PROBE = r'''
import sys, json
sys.path.insert(0, %(harness)r)
import shim
import numpy as np
from cola import ops
present = []
def chk(flag, f):
    try:
        if f(): present.append(flag)
    except Exception:
        present.append(flag)
chk("sparse_unsorted_cols", lambda: not np.array_equal(np.asarray(ops.Sparse(np.array([2., 3.]), np.array([1, 1]), np.array([2, 0]), (2, 3)).to_dense()), np.array([[0., 0., 0.], [3., 0., 2.]])))
chk("concat_assert_wrong_axis", lambda: not np.array_equal(ops.Concatenated(ops.Dense(np.ones((1, 2))), ops.Dense(np.ones((2, 2))), axis=0).to_dense(), np.ones((3, 2))))
chk("sliced_index_array_cpu", lambda: not np.array_equal(ops.Sliced(ops.Dense(np.arange(9.).reshape(3, 3)), (np.array([0, 2]), slice(None))).to_dense(), np.arange(9.).reshape(3, 3)[[0, 2]]))
chk("kronsum_inplace_dtype", lambda: not np.array_equal(np.asarray(ops.KronSum(ops.Dense(np.array([[1j]])), ops.Dense(np.array([[2 + 0j]]))) @ np.ones(1), dtype=complex), np.array([2 + 1j])))
print("RESULT" + json.dumps(present))
'''


def c01_flags(repo):
    """recorded findings of C01 that spoil constructors / densification, probed in a FRESH interpreter: a failing
    constructor call would otherwise leave its mark in this process's class registry"""
    env = dict(os.environ, PYTHONPATH=repo, PYTHONHASHSEED="0", COLA_REPO=repo)
    code = C01_PROBE % dict(harness=os.path.join(core.VERIF, "harness"))
    p = subprocess.run([core.PY, "-c", code], capture_output=True, text=True, timeout=120, env=env)
    m = re.search(r"^RESULT(.*)$", p.stdout, flags=re.M)
    if not m:
        raise RuntimeError("C01 probe subprocess failed: " + (p.stderr or p.stdout)[-500:])
    return set(json.loads(m.group(1)))


def run_script(spec, repo):
    env = dict(os.environ, PYTHONPATH=repo, PYTHONHASHSEED="0", COLA_REPO=repo)
    code = CHILD % dict(harness=os.path.join(core.VERIF, "harness"))
    p = subprocess.run([core.PY, "-c", code], input=json.dumps(spec), capture_output=True, text=True, timeout=120, env=env)
    m = re.search(r"^RESULT(.*)$", p.stdout, flags=re.M)
    if not m:
        return dict(events=[], end=[], errors=[["subprocess", (p.stderr or p.stdout)[-600:]]])
    return json.loads(m.group(1))


def run_many(specs, repo, workers=12):
    from concurrent.futures import ThreadPoolExecutor
    with ThreadPoolExecutor(max_workers=workers) as ex:
        return list(ex.map(lambda s: run_script(s, repo), specs))


# ------------------------------------------------------------------ script generator
LEAVES = [["Dense", 2], ["Tri", 2], ["Diag", 2], ["Ident", 2], ["Scal", 2], ["Perm", 2], ["Tridiag", 2], ["House", 2], ["Sparse"], ["Generic", 2]]
USERW = ["array", "none", "float", "tuple_arr", "tuple_plain", "op", "opt_ident"]


def gen_spec(rnd, sliced_arrays_ok):
    def leaf():
        return list(rnd.choice(LEAVES))

    def node(d):
        if d <= 0 or rnd.random() < 0.35:
            return leaf()
        k = rnd.choice(["Prod", "Sum", "Kron", "BDiag", "BDiag", "Transp", "Adj", "Sliced", "Concat", "PSD", "Lazy", "Add", "Scale", "KronSum"])
        if k in ("Prod", "Sum", "Kron", "Concat", "KronSum"):
            return [k, [node(d - 1) for _ in range(rnd.randint(1, 3))]]
        if k == "BDiag":
            return [k, [node(d - 1) for _ in range(rnd.randint(1, 2))], rnd.choice(["list", "list", "array"])]
        if k in ("Transp", "Adj", "PSD", "Scale"):
            return [k, node(d - 1)]
        if k == "Sliced":
            return [k, node(d - 1), rnd.choice(["slice", "array"]) if sliced_arrays_ok else "slice"]
        return [k, node(d - 1), node(d - 1)]
    spec = []
    defined = []
    for _ in range(rnd.randint(4, 9)):
        u = rnd.random()
        if u < 0.15:
            name = f"U{len(defined)}"
            parent = rnd.choice(["LinearOperator"] + defined)
            spec.append(["defclass", name, parent])
            defined.append(name)
        elif u < 0.4 and defined:
            spec.append(["User", rnd.choice(defined), rnd.choice(USERW)])
        else:
            spec.append(node(2))
    return spec


def permutation_specs(rnd, sliced_arrays_ok):
    """first-instantiation orders of a fixed set of constructions whose classes can be decided either way"""
    import itertools
    D2 = ["Dense", 2]
    items = [["BDiag", [D2, D2], "list"], ["BDiag", [D2, D2], "array"],
             ["defclass", "U0", "LinearOperator"], ["User", "U0", "array"], ["User", "U0", "none"], ["User", "U0", "tuple_plain"],
             ["Prod", [["Ident", 2], ["Ident", 2]]]]
    if sliced_arrays_ok:
        items += [["Sliced", D2, "slice"], ["Sliced", D2, "array"]]
    out = []
    for perm in itertools.permutations(range(len(items)), 5):
        sel = [items[i] for i in perm]
        # a user class must be defined before it is instantiated
        names = [s[1] for s in sel if s[0] == "defclass"]
        ok = True
        for i, s in enumerate(sel):
            if s[0] == "User" and (s[1] not in names or [x[0:2] for x in sel].index(["defclass", s[1]]) > i):
                ok = False
        if ok:
            out.append(sel)
    rnd.shuffle(out)
    return out


# ------------------------------------------------------------------ Coq printing
def cstr(s):
    return '"' + s.replace('"', "'") + '"'


def cval(v):
    t = v[0]
    if t == "arr":
        return f"(VArr {v[1]})"
    if t == "atom":
        return f"(VAtom {cstr(v[1])})"
    if t == "none":
        return "VNone"
    if t == "tup":
        return "(VTup [" + ";".join(cval(x) for x in v[1]) + "])"
    if t == "op":
        return f"(VOp {cstr(v[1])} [" + ";".join(f"({cstr(k)},{cval(x)})" for k, x in v[2]) + "])"
    raise AssertionError(v)


def cleaves(ls):
    return "[" + ";".join(cval(x) for x in ls) + "]"


def coq_case(res):
    evs, now = [], []
    for e in res["events"]:
        if "decl" in e:
            evs.append(f"XE (EDecl {cstr(e['decl'][0])} {cstr(e['decl'][1])})")
        else:
            c = e.get("cons") or e["partial"]
            k = ("{| k_cls := %s; k_parent := %s; k_assigns := [%s] |}"
                 % (cstr(c["cls"]), cstr(c["parent"]), ";".join(f"({cstr(k)},{cval(x)})" for k, x in c["assigns"])))
            if "cons" in e:
                evs.append(f"XE (ECons {k})")
                now.append(cleaves(e["now"]))
            else:
                evs.append(f"XPartial {k}")
    return "{| r_hist := [%s];\n   r_now := [%s];\n   r_end := [%s] |}" % (";\n  ".join(evs), ";".join(now), ";".join(cleaves(x) for x in res["end"]))


def eval_in_coq(tag, results):
    jobs, spans = [], []
    step = 20
    for s in range(0, len(results), step):
        body = ";\n".join(coq_case(r) for r in results[s:s + step])
        text = HEADER + f"Definition cases : list rcase := [\n{body}].\nDefinition res := Eval vm_compute in failing_from rcase_ok 0%nat cases.\nPrint res.\n"
        jobs.append((f"c18_reg_{tag}_{s // step}", text))
        spans.append(s)
    outs = core.coqc_many(jobs, timeout=400)
    failing = []
    for (rc, out), s in zip(outs, spans):
        m = re.search(r"res\s*=\s*(\[[^\]]*\]|nil)", out.replace("\n", " "))
        if rc != 0 or not m:
            return [], f"coqc failed (rc={rc}): {out[-1500:]}"
        failing += [s + int(x) for x in re.findall(r"\d+", m.group(1))]
    return failing, None


def eval_alias_in_coq(tag, obs):
    """obs: list of (query, ktree string, observed bool)"""
    import c18_pool as P
    uniq = sorted({(q, P.ktree(t), o) for q, t, o in obs})
    jobs, spans = [], []
    step = 300
    for s in range(0, len(uniq), step):
        body = ";\n".join("{| a_q := %s; a_tree := %s; a_obs := %s |}" % (q, kt, "true" if o else "false") for q, kt, o in uniq[s:s + step])
        text = HEADER + f"Definition cases : list acase := [\n{body}].\nDefinition res := Eval vm_compute in failing_from acase_ok 0%nat cases.\nPrint res.\n"
        jobs.append((f"c18_alias_{tag}_{s // step}", text))
        spans.append(s)
    outs = core.coqc_many(jobs, timeout=400)
    failing = []
    for (rc, out), s in zip(outs, spans):
        m = re.search(r"res\s*=\s*(\[[^\]]*\]|nil)", out.replace("\n", " "))
        if rc != 0 or not m:
            return [], uniq, f"coqc failed (rc={rc}): {out[-1500:]}"
        failing += [s + int(x) for x in re.findall(r"\d+", m.group(1))]
    return failing, uniq, None
