#!/bin/bash
# usage: confirm_seed.sh <worktree> <seed dir with patch.diff demo.py>  -> prints demo rc in both states and test-suite pass count with the patch
wt=$1; sd=$2
cd $wt && git checkout -q -- cola
PYTHONPATH=$wt /venv/bin/python $sd/demo.py >/dev/null 2>&1; echo "demo unchanged rc=$?"
git apply $sd/patch.diff || { echo "PATCH DOES NOT APPLY"; exit 2; }
PYTHONPATH=$wt /venv/bin/python $sd/demo.py >/dev/null 2>&1; echo "demo patched rc=$?"
/venv/bin/python -m pytest -q -p no:cacheprovider --timeout=900 --continue-on-collection-errors -rA 2>/dev/null | grep "^PASSED" | sort > /tmp/seed/_passed.txt
echo "passed with patch: $(wc -l < /tmp/seed/_passed.txt)"
if [ -f /tmp/seed/_base_passed.txt ]; then diff -q /tmp/seed/_base_passed.txt /tmp/seed/_passed.txt >/dev/null && echo "same passed set as baseline" || echo "PASSED SET DIFFERS"; fi
git checkout -q -- cola
