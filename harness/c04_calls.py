"""C04 second level (stub, replaced below)."""
def run(ctx, T, full):
    return dict(mismatches=[], extra={}, evaluations=0)
