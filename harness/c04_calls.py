"""C04 second level: the dispatched calls that the rules themselves make (hand-written from the sources named in the
comments), the translation of that call graph into argument sets over the abstract universe (emitted into
C04_RuleTable.v, closed in Coq by `second_level_total`), and its validation against the nested dispatches observed
while the public functions run on small instances (harness-side tracing of plum's Function.__call__).

A template = (callee, [required argument specs], [optional argument specs]).  Argument specs:
  ("arg", i)        the caller's i-th dispatched argument (any admissible value the caller's signature accepts)
  "FACTOR"/"ANYOP"  any operator (a factor of A, or an operator the rule built: every kind of the universe)
  ("cls", [...])    any annotation variant of the operator classes named
  ("rep", [...])    the named non-operator reps (fresh algorithm objects, literals)
Optional specs: ("P", spec) positional, ("K", spec) keyword, ("O",) omitted."""
import time
from collections import OrderedDict, Counter

A0, A1, A2, A3 = ("arg", 0), ("arg", 1), ("arg", 2), ("arg", 3)
ANYOP = "ANYOP"


def P(s):
    return ("P", s)


def K(s):
    return ("K", s)


O = ("O",)


def rep(*names):
    return ("rep", list(names))


def cls(*names):
    return ("cls", list(names))


UNARY = rep("Auto", "Eig", "Eigh", "Lanczos", "Arnoldi")

# (function, signature hint names, has condition) -> templates
CALLS = OrderedDict([
    # cola/fns.py:93-95, 196-200, 224-227: lazify both sides and dispatch again
    (("add", ("Any", "Any"), False), [("add", [ANYOP, ANYOP], [])]),
    (("kron", ("Any", "Any"), False), [("kron", [ANYOP, ANYOP], [])]),
    (("kronsum", ("Any", "Any"), False), [("kronsum", [ANYOP, ANYOP], [])]),
    # decompositions.py:162-176, 194-211
    (("cholesky", ("Diagonal|ScalarMul",), False), [("sqrt", [A0], [P(rep("Auto"))])]),
    (("cholesky", ("Kronecker",), False), [("cholesky", [ANYOP], [])]),
    (("cholesky", ("BlockDiag",), False), [("cholesky", [ANYOP], [])]),
    (("plu", ("Diagonal|ScalarMul",), False), [("sqrt", [A0], [O])]),
    (("plu", ("Kronecker",), False), [("plu", [ANYOP], [])]),
    (("plu", ("BlockDiag",), False), [("plu", [ANYOP], [])]),
    # inverse/inv.py:73-105: Auto picks a fresh algorithm; Cholesky / LU factor and invert the factors
    (("inv", ("LinearOperator", "Auto"), False), [("inv", [A0], [P(rep("Cholesky", "CG", "LU", "GMRES"))])]),
    (("inv", ("LinearOperator", "Cholesky"), False), [("cholesky", [A0], []), ("inv", [ANYOP], [O])]),
    (("inv", ("LinearOperator", "LU"), False), [("plu", [A0], []), ("inv", [ANYOP], [O])]),
    (("inv", ("Product", "Algorithm"), True), [("inv", [ANYOP], [P(A1)])]),
    (("inv", ("BlockDiag", "Algorithm"), False), [("inv", [ANYOP], [P(A1)])]),
    (("inv", ("Kronecker", "Algorithm"), False), [("inv", [ANYOP], [P(A1)])]),
    # inverse/pinv.py:50-62
    (("pinv", ("LinearOperator", "Auto"), False), [("pinv", [A0], [P(rep("LSTSQ", "CG"))])]),
    # logdet/logdet.py:82-166
    (("slogdet", ("LinearOperator", "Auto", "Algorithm"), False),
     [("slogdet", [A0], [K(rep("Cholesky", "LU", "Lanczos", "Arnoldi")), K(A2)])]),
    (("slogdet", ("LinearOperator", "Cholesky", "Algorithm"), False),
     [("cholesky", [A0], []), ("slogdet", [ANYOP], [P(A1), P(A2)])]),
    (("slogdet", ("LinearOperator", "LU", "Algorithm"), False),
     [("plu", [A0], []), ("slogdet", [ANYOP], [P(A1), P(A2)])]),
    (("slogdet", ("LinearOperator", "Lanczos|Arnoldi", "Algorithm"), False),
     [("log", [A0], [P(A1)]), ("trace", [ANYOP], [P(A2)])]),
    (("slogdet", ("Product", "Algorithm", "Algorithm"), True), [("slogdet", [ANYOP], [P(A1), P(A2)])]),
    (("slogdet", ("Kronecker", "Algorithm", "Algorithm"), False), [("slogdet", [ANYOP], [P(A1), P(A2)])]),
    (("slogdet", ("BlockDiag", "Algorithm", "Algorithm"), False), [("slogdet", [ANYOP], [P(A1), P(A2)])]),
    # trace/diag_trace.py:43-147
    (("diag", ("LinearOperator", "int", "Auto"), False), [("diag", [A0], [P(A1), P(rep("Exact", "Hutch"))])]),
    (("diag", ("Sum", "int", "Algorithm"), False), [("diag", [ANYOP], [P(A1), P(A2)])]),
    (("diag", ("BlockDiag", "int", "Algorithm"), False), [("diag", [ANYOP], [P(A1), P(A2)])]),
    (("diag", ("ScalarMul", "int", "Algorithm"), False), [("diag", [cls("Identity")], [P(A1), P(A2)])]),
    (("diag", ("Kronecker", "int", "Algorithm"), False), [("diag", [ANYOP], [P(A1), P(A2)])]),
    (("diag", ("KronSum", "int", "Algorithm"), False), [("diag", [ANYOP], [P(A1), P(A2)])]),
    (("trace", ("LinearOperator", "Algorithm"), False), [("diag", [A0], [P(rep("pyint0")), P(A1)])]),
    (("trace", ("Kronecker", "Algorithm"), False), [("trace", [ANYOP], [P(A1)])]),
    # unary/unary.py:114-211
    (("apply_unary", ("Callable", "LinearOperator", "Auto"), False),
     [("apply_unary", [A0, A1], [P(rep("Eigh", "Eig", "Lanczos", "Arnoldi"))])]),
    (("apply_unary", ("Callable", "LinearOperator", "Eig"), False), [("inv", [cls("Dense")], [O])]),
    (("apply_unary", ("Callable", "BlockDiag", "Algorithm"), False), [("apply_unary", [A0, ANYOP], [P(A2)])]),
    (("apply_unary", ("Callable", "Transpose", "Algorithm"), False), [("apply_unary", [A0, ANYOP], [P(A2)])]),
    (("apply_unary", ("Callable", "Adjoint", "Algorithm"), False), [("apply_unary", [A0, ANYOP], [P(A2)])]),
    # unary/unary.py:228-334 (the signatures with the default dropped receive the algorithm by keyword or default)
    (("exp", ("LinearOperator", "Algorithm"), False), [("apply_unary", [rep("callable"), A0], [P(UNARY)])]),
    (("exp", ("KronSum", "Algorithm"), False), [("exp", [ANYOP], [P(A1)])]),
    (("log", ("LinearOperator", "Algorithm"), False), [("apply_unary", [rep("callable"), A0], [P(UNARY)])]),
    (("pow", ("LinearOperator", "Number", "Algorithm"), False),
     [("apply_unary", [rep("callable"), A0], [P(UNARY)]),
      ("inv", [A0], [P(rep("CG", "GMRES", "Cholesky", "LU", "Auto"))])]),
    (("pow", ("Kronecker", "Number", "Algorithm"), False), [("pow", [ANYOP, A1], [P(A2)])]),
    (("sqrt", ("LinearOperator", "Algorithm"), False), [("pow", [A0, rep("pyfloat")], [P(UNARY)])]),
    (("isqrt", ("LinearOperator", "Algorithm"), False), [("pow", [A0, rep("pyfloat")], [P(UNARY)])]),
    # eig/eigs.py:76-96, svd/svd.py:38-84
    (("eig", ("LinearOperator", "int", "str", "Auto"), False),
     [("eig", [A0, A1], [P(A2), P(rep("PowerIteration", "Eigh", "Eig", "Lanczos", "Arnoldi"))])]),
    (("eig", ("Triangular", "int", "str", "Algorithm"), False), [("diag", [A0], [O, O]), ("diag", [A0], [P(rep("pyint0", "pyint")), O])]),
    (("svd", ("LinearOperator", "int", "str", "Auto"), False),
     [("svd", [A0, A1], [P(A2), P(rep("DenseSVD", "Lanczos"))])]),
    (("svd", ("LinearOperator", "int", "str", "Lanczos"), False), [("inv", [cls("Diagonal")], [O])]),
    (("svd", ("LinearOperator", "int", "str", "LOBPCG"), False), [("inv", [cls("Diagonal")], [O])]),
])

# operator algebra available to every rule and to the constructors (operator_base.py:87-140, LinearOperator.__init__)
GENERIC = [
    ("get_annotations", [ANYOP], []),
    ("transpose", [ANYOP], []),
    ("adjoint", [ANYOP], []),
    ("dot", [ANYOP, ANYOP], []),
    ("add", [ANYOP, ANYOP], []),
    ("mul", [ANYOP, rep("pyint", "pyfloat", "pycomplex", "npfloat", "np0d")], []),
]


# plain wrappers of the public API (inverse/inv.py:23-40, logdet/logdet.py:29-50, eig/eigs.py:44-73): no rule selection
# of their own, they forward to a dispatched function
WRAPPER_CALLS = [
    ("solve", "inv", [ANYOP], [P(rep("Auto", "CG", "GMRES", "LU", "Cholesky"))]),
    ("logdet", "slogdet", [ANYOP], [K(rep("Auto", "Cholesky", "LU", "Lanczos", "Arnoldi")), K(rep("Auto", "Exact", "Hutch"))]),
    ("eigmax", "eig", [ANYOP, rep("pyint")], [K(rep("strLM")), K(rep("Auto", "Eig", "Eigh", "Lanczos", "Arnoldi", "LOBPCG", "PowerIteration"))]),
    ("eigmin", "eig", [ANYOP, rep("pyint")], [K(rep("strSM")), K(rep("Auto", "Eig", "Eigh", "Lanczos", "Arnoldi", "LOBPCG", "PowerIteration"))]),
]


def resolve_templates(T):
    """-> list of dict(caller, orig, callee, req=[[rep names]], opt=[[(kind, rep name)]]) over the universe of T;
    rules of the live table without an entry in CALLS make no dispatched call according to the hand model (listed in
    `unmodelled`: rules whose entry no longer matches any live registration)."""
    reps = T["reps"]
    U = T["U"]
    out, stale = [], []
    live_keys = set()
    for fn, d in T["funcs"].items():
        for ri, q in enumerate(d["raw"]):
            key = (fn, tuple(T["type_names"][t] for t in q["types"]), q["cond"] is not None)
            live_keys.add(key)
            if key not in CALLS:
                continue
            req_c, opt_c = U.LATTICE[fn]
            full_req, full_opt = __import__("translate_c04_rules").choices(T, fn, True)
            pos_choices = full_req + full_opt

            def argset(i):
                t = q["types"][i]
                return [n for n in pos_choices[i] if T["bear"][n][t]]

            def setof(spec):
                if spec == ANYOP or spec == "FACTOR":
                    return list(T["op_all"])
                if spec[0] == "arg":
                    return argset(spec[1])
                if spec[0] == "cls":
                    return [n for n in T["op_all"] if reps[n].cls in spec[1]]
                if spec[0] == "rep":
                    return list(spec[1])
                raise ValueError(spec)
            for (callee, rq, op) in CALLS[key]:
                opt = []
                for o in op:
                    if o[0] == "O":
                        opt.append([("O", None)])
                    else:
                        opt.append([(o[0], n) for n in setof(o[1])])
                out.append(dict(caller=fn, orig=ri, callee=callee, req=[setof(s) for s in rq], opt=opt))
    for key in CALLS:
        if key not in live_keys:
            stale.append(key)
    def setof0(spec):
        return list(T["op_all"]) if spec == ANYOP else list(spec[1])
    for (wname, callee, rq, op) in WRAPPER_CALLS:
        out.append(dict(caller=wname, orig=0, callee=callee, req=[setof0(s) for s in rq],
                        opt=[[(o[0], n) for n in setof0(o[1])] for o in op]))
    for (callee, rq, op) in GENERIC:
        out.append(dict(caller="*", orig=0, callee=callee, req=[setof0(s) for s in rq], opt=[]))
    return out, stale


def coq_templates(T):
    rid = T["rid"]
    tm, stale = resolve_templates(T)
    L = ["", "(* ---- second level: dispatched calls made by the rules (hand-written call graph harness/c04_calls.py) ---- *)"]
    for k in stale:
        L.append(f"(* stale call-graph entry (no such registration in the live table): {k[0]} {' '.join(k[1])} *)")

    def af(k, n):
        return "Omit" if k == "O" else f"{'Pos' if k == 'P' else 'Kw'} {rid[n]}%positive"
    ents = []
    for t in tm:
        req = "[" + "; ".join("[" + ";".join(f"{rid[n]}%positive" for n in s) + "]" for s in t["req"]) + "]"
        opt = "[" + "; ".join("[" + ";".join(af(k, n) for (k, n) in s) + "]" for s in t["opt"]) + "]"
        ents.append(f"  mktmpl \"{t['caller']}\" {t['orig']}%N \"{t['callee']}\" {req} {opt}")
    L.append("Definition templates : list tmpl := [")
    L.append(";\n".join(ents))
    L.append("].")
    return "\n".join(L) + "\n"


# ---------------------------------------------------------------------------------------------------------------
def abstract_class(T, v):
    """class name of an observed argument, as in the universe"""
    import numpy as np
    from cola.ops import LinearOperator
    from cola.linalg.algorithm_base import Algorithm
    if isinstance(v, LinearOperator):
        return type(v).__name__.split("[")[0]
    if isinstance(v, Algorithm):
        return type(v).__name__
    if isinstance(v, bool):
        return "bool"
    if isinstance(v, (int, np.integer)):
        return "int"
    if isinstance(v, np.floating):
        return "float64"
    if isinstance(v, float):
        return "float"
    if isinstance(v, (complex, np.complexfloating)):
        return "complex"
    if isinstance(v, np.ndarray):
        return "ndarray0d" if v.ndim == 0 else "ndarray"
    if isinstance(v, str):
        return "str"
    if callable(v):
        return "callable"
    return type(v).__name__


NUMERIC = {"int", "float", "float64", "complex", "ndarray0d"}


def run(ctx, T, full):
    """drive the public functions on small instances, record nested dispatches, check them against the templates"""
    import translate_c04_rules as TR
    import c04_lattice as LT
    import c04_trace as TC
    U, reps = T["U"], T["reps"]
    tm, stale = resolve_templates(T)
    by_caller = {}
    for t in tm:
        by_caller.setdefault((t["caller"], t["orig"]), []).append(t)
    generic = [t for t in tm if t["caller"] == "*"]

    def classes(names):
        return {reps[n].cls for n in names}
    for t in tm:
        t["req_cls"] = [classes(s) for s in t["req"]]
        t["opt_cls"] = [({k for k, _ in s}, classes([n for k, n in s if n is not None])) for s in t["opt"]]

    def orig_of(rec):
        d = T["funcs"].get(rec.fn)
        if d is None or rec.sig is None:
            return None
        for r in d["rules"]:
            if r["sig"] is rec.sig:
                return r["orig"]
        return None

    def fits(t, rec):
        """does the observed call `rec` instantiate template t"""
        if t["callee"] != rec.fn:
            return False
        spec = U.LATTICE.get(rec.fn)
        if spec is None:
            return False
        nreq = len(spec[0])
        names = [n for n, _ in spec[1]]
        args = list(rec.args)
        kw = dict(rec.kw)
        # an abstract wrapper has already bound everything positionally: accept it as the positional/keyword form
        # the template names if the VALUES fit
        if len(args) < nreq:
            return False
        for a, cs in zip(args[:nreq], t["req_cls"]):
            c = abstract_class(T, a)
            if c not in cs and not (c in NUMERIC and cs & NUMERIC):
                return False
        extra = args[nreq:]
        for i, (kinds, cs) in enumerate(t["opt_cls"]):
            if i < len(extra):
                v = extra[i]
            elif names[i] in kw:
                v = kw[names[i]]
            else:
                if "O" in kinds:
                    continue
                return False
            if "O" in kinds and not cs:
                # template says omitted; a bound default (abstract wrapper) is the only acceptable value
                d = T["funcs"][rec.fn]["abstract"]
                if d is None or abstract_class(T, v) != reps[d[i]].cls:
                    return False
                continue
            c = abstract_class(T, v)
            if c not in cs and not (c in NUMERIC and cs & NUMERIC):
                return False
        return True

    kinds_q = ["Dense", "Triangular", "Sparse", "ScalarMul", "Identity", "Product", "ProductNS", "Sum", "Kronecker", "KronSum",
               "BlockDiag", "Diagonal", "Tridiagonal", "Transpose", "Permutation", "LinearOperator"]
    limit = 1.0 if full else 0.35
    t0 = time.time()
    budget = ctx.budget(45.0, 400.0)
    ncalls = nnested = 0
    unexplained = Counter()
    lookup_nested = {}
    errs = Counter()
    seen_edges = set()
    fns = [f for f in U.LATTICE if f not in ("dot", "add", "kron", "kronsum", "mul", "transpose", "adjoint", "get_annotations")]
    work = []
    for fn in fns:
        reqc, optc = TR.choices(T, fn, False)

        def keep(r):
            R = reps[r]
            if R.sort != "op":
                return True
            if R.cls in ("Jacobian", "Hessian", "ConvolveND", "Kernel", "AdaNysPrecond", "NystromPrecond", "NystromPrecondLazy"):
                return False
            if full:
                return R.ann in ("", "PSD")
            return (R.kind in kinds_q and R.ann == "") or (R.kind in ("Dense", "Kronecker", "BlockDiag", "Diagonal") and R.ann == "PSD")
        for req, opt in LT.calls([[r for r in c if keep(r)] for c in reqc], optc):
            nk = sum(1 for k, _ in opt if k == "K")
            if nk and not all(k != "P" for k, _ in opt):
                continue  # mixed forms dispatch like one of the pure ones
            if not full and any(x == "Hutch" for _, x in opt):
                continue  # stochastic estimators only in the thorough tier (slow on purpose-free inputs)
            work.append((fn, req, opt))
    ctx.rng.shuffle(work)
    # binary combinators: a few hundred pairs
    for fn in ("dot", "add", "kron", "kronsum"):
        ks = [k for k in kinds_q]
        for a in ks:
            for b in ks:
                work.append((fn, [a, b], []))
    # the plain wrappers: their nested dispatch must instantiate the wrapper's template
    import cola as _cola
    wrapper_unexplained = 0
    wt = {t["caller"]: t for t in tm if t["caller"] in U.WRAPPERS}
    import numpy as _np
    for kname in kinds_q:
        A = reps[kname].obj
        for wname, call in (("solve", lambda: _cola.solve(A, _np.ones(A.shape[0]))), ("solve", lambda: _cola.solve(A, _np.ones(A.shape[0]), reps["LU"].obj)),
                            ("logdet", lambda: _cola.logdet(A)), ("logdet", lambda: _cola.logdet(A, reps["LU"].obj, reps["Exact"].obj)),
                            ("eigmax", lambda: _cola.eigmax(A)), ("eigmin", lambda: _cola.eigmin(A, reps["Eig"].obj))):
            log, e, msg = TC.run_traced(call, [], {}, limit)
            ncalls += 1
            top = [r for r in log if r.depth == 0 and r.fn in T["funcs"] and r.fn not in ("get_annotations", "transpose", "adjoint", "dot", "add", "mul")]
            if top and not fits(wt[wname], top[0]):
                wrapper_unexplained += 1
                unexplained[(wname, "(plain wrapper)", top[0].fn, tuple(abstract_class(T, a) for a in top[0].args), tuple(sorted(top[0].kw)))] += 1
    skipped = 0
    for (fn, req, opt) in work:
        if time.time() - t0 > budget:
            skipped += 1
            continue
        f = U.public_callable(fn)
        names = [n for n, _ in U.LATTICE[fn][1]]
        args = [reps[x].obj for x in req] + [reps[x].obj for k, x in opt if k == "P"]
        kwargs = {n: reps[x].obj for (k, x), n in zip(opt, names) if k == "K"}
        log, e, msg = TC.run_traced(f, args, kwargs, limit)
        ncalls += 1
        if e:
            errs[e] += 1
        for rec in log:
            if rec.parent is None or rec.fn not in T["funcs"]:
                continue
            nnested += 1
            po = orig_of(rec.parent)
            cands = by_caller.get((rec.parent.fn, po), []) + generic
            edge = (rec.parent.fn, po, rec.fn)
            seen_edges.add(edge)
            if not any(fits(t, rec) for t in cands):
                key = (rec.parent.fn, str(rec.parent.sig).replace("Dispatched on ", "")[:120], rec.fn,
                       tuple(abstract_class(T, a) for a in rec.args), tuple(sorted(rec.kw)))
                unexplained[key] += 1
            if rec.err in ("AmbiguousLookupError", "NotFoundLookupError"):
                cl = tuple(abstract_class(T, a) for a in rec.args)
                lookup_nested.setdefault((rec.fn, cl, rec.err), LT.form_str(fn, req, opt, names))
    mismatches = []
    for key, n in list(unexplained.items())[:10]:
        mismatches.append(dict(oracle_fail=False, what="nested dispatch observed on the real code is not an instance of any template of the hand-written call graph (harness/c04_calls.py)",
                               caller=key[0], caller_rule=key[1], callee=key[2], arg_classes=key[3], keywords=key[4], occurrences=n))
    # nested lookup failures: attributed to the committed exceptions, otherwise violations
    attributed, unattr = [], []
    for (cfn, cl, err), witness in lookup_nested.items():
        kind = "Ambiguous" if err.startswith("Ambiguous") else "NotFound"
        hit = None
        for k in T["known"]:
            if k["fn"] == cfn and k["kind"] == kind and len(k["classes"]) == len(cl) and all(p == "*" or p == c for p, c in zip(k["classes"], cl)):
                hit = k["tuple"]
                break
        if hit:
            attributed.append((f"{cfn}({','.join(cl)})", hit, witness))
        else:
            unattr.append((f"{cfn}({','.join(cl)})", err, witness))
    for (tup, err, witness) in unattr[:5]:
        mismatches.append(dict(oracle_fail=True, what=f"second-level dispatch {tup} raised {err} inside the public call {witness}; not covered by the committed exception list",
                               case=witness, expected="a unique rule", got=err))
    extra = dict(second_level_public_calls=ncalls, second_level_nested_dispatches=nnested,
                 second_level_edges_observed=len(seen_edges), second_level_templates=len(tm),
                 second_level_stale_entries=[f"{k[0]}({','.join(k[1])})" for k in stale],
                 second_level_skipped_for_time=skipped,
                 second_level_lookup_errors_attributed=sorted({f"{a} -> {h}" for a, h, _ in attributed})[:20],
                 second_level_exceptions=dict(errs))
    return dict(mismatches=mismatches, extra=extra, evaluations=ncalls)
