"""C07 helpers: recipes of non-singular operator trees, their cola objects (constructors and public combinators),
an independent dense oracle, the translation of a cola object into the decorated model tree of coq/C07_Slogdet.v
(oracle decorations = what LAPACK returns for the node), and Coq printing at the exact instance qdom / kdom."""
import math
from fractions import Fraction
import numpy as np
import shim  # noqa: F401
import trees as T

REAL_VALS = [1, -1, 2, -2, 3, -3, 0.5, -0.5, 0.25, -0.25, 1.5, -1.5, 4, 0.75, -0.75, 0.125]
DT_REAL = ["float64", "float64", "float64", "float32"]
DT_CPLX = ["complex128", "complex128", "complex128", "complex64"]


# ------------------------------------------------------------------ recipes
class RGen:
    """recipes are JSON-able dicts; values are python floats/complex pairs [re, im] that are dyadic rationals"""

    def __init__(self, rnd, krylov=False):
        self.r = rnd
        self.krylov = krylov  # only base nodes below Prod/Kron/BDiag, all of them PSD
        self.wrap = True      # lazy Transpose / Adjoint wrappers around base nodes
        self.wrap_p = 0.17
        self.extreme = False  # payload scales so extreme that determinants (and products of LU / Cholesky pivots) leave the dtype's range
        self.wide = False     # wide data regime: payload scales 1e-8..1e8, dense nodes with graded spectra (cond 1e3..1e8)

    def val(self, cplx):
        r = self.r
        sc = 10.0 ** r.randint(-8, 8) if (self.wide and not self.extreme and r.random() < 0.7) else 1
        if not cplx:
            return [r.choice(REAL_VALS) * sc, 0]
        while True:
            a, b = r.choice(REAL_VALS + [0, 0]), r.choice(REAL_VALS + [0, 0, 0])
            if a or b:
                return [a * sc, b * sc]

    def xscale(self, dt):
        """10^(+-e): float32 24..36 decades, float64 165..290 decades (entries stay normal numbers; products of >= 2 of them do not)"""
        r = self.r
        e = r.randint(24, 33) if dt in ("float32", "complex64") else r.randint(165, 290)
        return 10.0 ** (e * r.choice([-1, 1]))

    def xs(self, t):
        """rescale the payload of a leaf recipe in the extreme regime"""
        if not self.extreme or t.get("k") not in ("Dense", "Tri", "Diag", "Scal") or "dt" not in t or t.get("graded") or t.get("tiny") or t.get("xscale"):
            return t
        sc = self.xscale(t["dt"])
        f = (lambda v: [float(np.float32(v[0] * sc)), float(np.float32(v[1] * sc))]) if t["dt"] in ("float32", "complex64") else (lambda v: [v[0] * sc, v[1] * sc])
        if t["k"] in ("Dense", "Tri"):
            t["a"] = [[f(v) for v in row] for row in t["a"]]
        elif t["k"] == "Diag":
            t["d"] = [f(v) for v in t["d"]]
        else:
            t["c"] = f(t["c"])
        t["xscale"] = sc
        return t

    def dt(self, cplx):
        return self.r.choice(DT_CPLX if cplx else DT_REAL)

    def dense_general(self, n, cplx):
        r = self.r
        for _ in range(50):
            a = [[[r.randint(-3, 3), r.randint(-2, 2) if cplx else 0] for _ in range(n)] for _ in range(n)]
            M = np.array([[complex(*v) for v in row] for row in a])
            if n == 0 or (abs(np.linalg.det(M)) > 0.5 and np.linalg.cond(M) < 200):
                k = r.choice([0, 0, 1, 2])
                a = [[[v[0] / 2 ** k, v[1] / 2 ** k] for v in row] for row in a]
                return dict(k="Dense", dt=self.dt(cplx), a=a, psd=False)
        return dict(k="Dense", dt=self.dt(cplx), a=[[[1.0 if i == j else 0.0, 0] for j in range(n)] for i in range(n)], psd=False)

    def dense_psd(self, n, cplx, tiny=False):
        r = self.r
        G = np.array([[complex(r.randint(-2, 2), r.randint(-1, 1) if cplx else 0) for _ in range(n)] for _ in range(n)])
        B = G.conj().T @ G + np.eye(n)
        k = r.choice([0, 0, 1, 2, 3])
        dt = self.dt(cplx)
        if tiny:
            # overall scale so small that the eigenvalues are near / below the dtype's unit roundoff (Gram matrices of data at scale 1e-3 .. 1e-9);
            # Cholesky and LU are scale invariant, so this stays perfectly well conditioned
            sc = 10.0 ** -(r.randint(4, 10) if dt in ("float32", "complex64") else r.randint(9, 18))
            A = (B / 2 ** k * sc).astype(np.complex64 if dt in ("float32", "complex64") else np.complex128)
            a = [[[float(A[i, j].real), float(A[i, j].imag)] for j in range(n)] for i in range(n)]
            return dict(k="Dense", dt=dt, a=a, psd=True, tiny=sc)
        a = [[[B[i, j].real / 2 ** k, B[i, j].imag / 2 ** k] for j in range(n)] for i in range(n)]
        return dict(k="Dense", dt=dt, a=a, psd=True)

    def generic(self, n, cplx):
        """an operator kind without a structural slogdet rule (Sum, Transpose, Adjoint, Sliced, Tridiagonal, Householder,
        Sparse, KronSum, Concatenated, Product with non-square factors ...), from the shared tree generator"""
        r = self.r
        g = T.Gen(r, kinds=[k for k in T.LEAF + T.COMP if k not in ("Concat", "Sliced")], maxdim=3)
        g.sparse_sorted = True
        for _ in range(60):
            k = r.choice(["Sum", "Transp", "Adj", "Sliced", "ProdNS", "Tridiag", "House", "Sparse", "KronSum", "Sum", "Transp"])
            if k == "ProdNS":
                m = n + r.randint(1, 2)
                t = dict(k="Prod", ms=[g.leaf((n, m), cplx), g.leaf((m, n), cplx)])
                for x in t["ms"]:
                    if x["k"] != "Dense":
                        x.clear()
                        x.update(g.leaf((n, m) if x is t["ms"][0] else (m, n), cplx))
                if any(x["k"] not in ("Dense", "Sparse") for x in t["ms"]):
                    continue
            elif k in ("Tridiag", "House", "Sparse"):
                t = None
                for _ in range(20):
                    t = g.leaf((n, n), cplx)
                    if t["k"] == k:
                        break
                if t is None or t["k"] != k:
                    continue
            elif k == "KronSum":
                if n not in (2, 4):
                    continue
                t = dict(k="KronSum", ms=[g.leaf((s, s), cplx) for s in ([2] if n == 2 else [2, 2])] + ([g.leaf((1, 1), cplx)] if n == 2 else []))
            elif k == "Sum":
                t = dict(k="Sum", ms=[g.tree(1, (n, n), cplx) for _ in range(r.randint(2, 3))])
            elif k == "Sliced":
                M, N = n + r.randint(0, 2), n + r.randint(0, 2)
                t = dict(k="Sliced", a=g.leaf((M, N), cplx), rs=sorted(r.sample(range(M), n)), cs=sorted(r.sample(range(N), n)))
                if T.range_slice(t["rs"]) is None or T.range_slice(t["cs"]) is None:
                    continue
            else:
                t = dict(k=k, a=g.tree(1, (n, n), cplx))
            if t["k"] in ("Diag", "Ident", "Scal", "Perm", "Tri", "Prod", "Kron", "BDiag") and k != "ProdNS":
                continue
            try:
                D = T.dense(t)
                T.build(t)
            except Exception:
                continue
            if D.shape != (n, n):
                continue
            if abs(np.linalg.det(D)) > 0.5 and np.linalg.cond(D) < 200:
                return dict(k="Generic", t=t)
        return self.dense_general(n, cplx)

    # ---- widely graded spectra (kernel-matrix-plus-jitter territory): condition numbers 1e3 .. 1e10, determinants far below 1
    def _unitary(self, n, cplx):
        rs = np.random.RandomState(self.r.getrandbits(31))
        M = rs.standard_normal((n, n)) + (1j * rs.standard_normal((n, n)) if cplx else 0)
        return np.linalg.qr(M)[0], rs

    def dense_graded(self, n, cplx, cond, psd=True, f32=False):
        r = self.r
        Q, rs = self._unitary(n, cplx)
        lam = np.exp(rs.uniform(-math.log(cond), 0, n))
        lam[0] = 1.0
        if n > 1:
            lam[1] = 1.0 / cond
        lam = lam * 10.0 ** r.randint(-3, 2)
        if not psd:   # normal, not Hermitian: eigenvalues with signs (real dtype) or arbitrary phases (complex dtype)
            lam = lam * (np.exp(1j * rs.uniform(0.3, 2.8, n) * rs.choice([-1, 1], n)) if cplx else rs.choice([-1.0, 1.0], n))
        A = (Q * lam) @ Q.conj().T
        if psd:
            A = (A + A.conj().T) / 2
        dt = ("complex64" if cplx else "float32") if f32 else ("complex128" if cplx else "float64")
        if f32:
            A = A.astype(np.complex64).astype(np.complex128)
        a = [[[float(A[i, j].real), float(A[i, j].imag) if cplx else 0.0] for j in range(n)] for i in range(n)]
        return dict(k="Dense", dt=dt, a=a, psd=bool(psd), graded=float(cond))

    def lazy_graded(self, n, cplx, cond, psd=True, tiny=False):
        """the same regime through lazy operators that reach the base case: a Sum of two dense halves, or G^H G + jitter * I"""
        r = self.r
        if n >= 2 and psd and r.random() < 0.5:
            k = r.randint(1, n - 1)
            rs = np.random.RandomState(r.getrandbits(31))
            G = rs.standard_normal((k, n)) + (1j * rs.standard_normal((k, n)) if cplx else 0)
            G = G / np.linalg.norm(G, 2) * 10.0 ** ((r.randint(-2, 2) / 2) if not tiny else -r.randint(4, 9))
            jitter = float(np.linalg.norm(G, 2) ** 2 / cond)
            g = [[[float(G[i, j].real), float(G[i, j].imag) if cplx else 0.0] for j in range(n)] for i in range(k)]
            return dict(k="Lazy", form="gram", dt="complex128" if cplx else "float64", g=g, jitter=jitter, psd=True, graded=float(cond), **(dict(tiny=True) if tiny else {}))
        base = self.dense_graded(n, cplx, cond, psd)
        A = np_arr(base["a"], "complex128")
        rs = np.random.RandomState(r.getrandbits(31))
        S = rs.standard_normal((n, n)) + (1j * rs.standard_normal((n, n)) if cplx else 0)
        S = (S + S.conj().T) / 2
        S = S / max(np.linalg.norm(S, 2), 1e-300) * np.linalg.norm(A, 2) * 0.5
        rows = lambda M: [[[float(M[i, j].real), float(M[i, j].imag) if cplx else 0.0] for j in range(n)] for i in range(n)]
        return dict(k="Lazy", form="sum", dt=base["dt"], parts=[rows(A / 2 + S), rows(A / 2 - S)], psd=bool(psd), graded=float(cond))

    def base(self, n, cplx):
        """a node that reaches a base case; one in six is hidden behind a lazy Transpose / Adjoint wrapper (constructor or .T / .H)"""
        r = self.r
        if self.wrap and r.random() < self.wrap_p:
            self.wrap = False
            try:
                if self.krylov or r.random() < 0.6:
                    inner = self.xs(self.base0(n, cplx))
                else:
                    inner = self.tree(1, n, cplx)   # a structured operator (Kronecker, BlockDiag, Product, Diagonal, ...) behind the wrapper
            finally:
                self.wrap = True
            return dict(k="Wrap", w=r.choice(["H", "H", "T"]), via=r.choice(["ctor", "ctor", "attr"]), a=inner,
                        psd=bool(inner.get("psd")) and inner["k"] in ("Dense", "Lazy"))
        return self.xs(self.base0(n, cplx))

    def base0(self, n, cplx):
        r = self.r
        if isinstance(self.krylov, dict):   # graded stream: {"cond": .., "psd": .., "lazy": .., "f32": ..}
            g = self.krylov
            if g.get("lazy") and r.random() < 0.5:
                return self.lazy_graded(n, cplx, g["cond"], g["psd"])
            return self.dense_graded(n, cplx, g["cond"], g["psd"], g.get("f32", False))
        if self.krylov == "general":
            return self.dense_general(n, cplx) if r.random() < 0.6 else self.dense_psd(n, cplx)
        if self.krylov:
            return self.dense_psd(n, cplx)
        if self.wide and r.random() < 0.45:
            return self.dense_psd(n, cplx, tiny=True)
        if self.wide and n >= 2 and r.random() < 0.15:
            return self.lazy_graded(n, cplx, 10.0 ** r.uniform(1, 6), True, tiny=True)
        if self.wide and n >= 2 and r.random() < 0.6:
            f32 = r.random() < 0.15
            return self.dense_graded(n, cplx, 10.0 ** (r.uniform(1, 3.4) if f32 else r.uniform(3, 8)), psd=r.random() < 0.5, f32=f32)
        x = r.random()
        if x < 0.35:
            return self.dense_general(n, cplx)
        if x < 0.65:
            return self.dense_psd(n, cplx)
        return self.generic(n, cplx)

    def leaf(self, n, cplx):
        r = self.r
        if self.krylov:
            return self.base(n, cplx)
        k = r.choice(["Base", "Base", "Base", "Tri", "Diag", "Ident", "Scal", "Perm", "Diag", "Tri", "Perm", "Scal"])
        dt = self.dt(cplx)
        if k == "Base":
            return self.base(n, cplx)
        if k == "Tri":
            lower = r.random() < 0.5
            a = [[(self.val(cplx) if i == j else ([r.randint(-3, 3), r.randint(-2, 2) if cplx else 0])) if ((j <= i) if lower else (j >= i)) else [0, 0]
                  for j in range(n)] for i in range(n)]
            return self.xs(dict(k="Tri", dt=dt, a=a, lower=lower))
        if k == "Diag":
            return self.xs(dict(k="Diag", dt=dt, d=[self.val(cplx) for _ in range(n)]))
        if k == "Ident":
            return dict(k="Ident", dt=dt, n=n)
        if k == "Scal":
            return self.xs(dict(k="Scal", dt=dt, c=self.val(cplx), n=n))
        if k == "Perm":
            p = list(range(n))
            r.shuffle(p)
            return dict(k="Perm", dt=dt, p=p)
        raise AssertionError(k)

    def tree(self, depth, n=None, cplx=False, maxn=6):
        r = self.r
        free = n is None
        if n is None:
            n = r.randint(1, 4)
        if depth <= 0 or r.random() < 0.2:
            return self.leaf(n, cplx)
        opts = ["Prod", "leaf"]
        facs = [(a, n // a) for a in range(1, n + 1) if n % a == 0]
        if n <= maxn:
            opts += ["Kron", "BDiag", "Kron", "BDiag"] + (["Up"] if free else [])
        k = r.choice(opts)
        d = depth - 1
        if k == "leaf":
            return self.leaf(n, cplx)
        if k == "Prod":
            via = r.choice(["ctor", "matmul", "scalar"]) if not self.krylov else r.choice(["ctor", "matmul"])
            if via == "scalar":
                return dict(k="Prod", via="scalar", ms=[dict(k="Scal", dt=self.dt(cplx), c=self.val(cplx), n=n), self.tree(d, n, cplx)])
            return dict(k="Prod", via=via, ms=[self.tree(d, n, cplx) for _ in range(r.randint(2, 3))])
        if k == "Kron":
            # unequal factor sizes whenever n has a non-trivial factorisation
            a, b = r.choice(facs)
            ms = [self.tree(d, a, cplx), self.tree(d, b, cplx)]
            if r.random() < 0.3:
                ms.insert(r.randint(0, 2), self.tree(0, 1, cplx))
            return dict(k="Kron", via=r.choice(["ctor", "ctor", "kron"]), ms=ms)
        if k == "BDiag":
            # n = sum mu_i * n_i
            parts, left = [], n
            while left > 0:
                s = r.randint(1, left)
                mu = r.choice([m for m in (1, 2, 3) if s % m == 0])
                parts.append((s // mu, mu))
                left -= s
            return dict(k="BDiag", ms=[self.tree(d, s, cplx) for s, _ in parts], mu=[mu for _, mu in parts])
        if k == "Up":
            # grow: a bigger Kronecker / block structure around a tree of size n
            if r.random() < 0.5:
                m = r.choice([2, 3])
                return dict(k="Kron", via="ctor", ms=[self.tree(d, n, cplx), self.tree(0, m, cplx)][::r.choice([1, -1])])
            return dict(k="BDiag", ms=[self.tree(d, n, cplx), self.tree(0, r.randint(1, 2), cplx)], mu=[r.choice([1, 2]), r.choice([1, 2, 3])])
        raise AssertionError(k)


def cval(v):
    return complex(v[0], v[1])


def rsize(t):
    k = t["k"]
    if k == "Dense" or k == "Tri":
        return len(t["a"])
    if k == "Generic":
        return T.shape(t["t"])[0]
    if k == "Lazy":
        return len(t["g"][0]) if t["form"] == "gram" else len(t["parts"][0])
    if k == "Wrap":
        return rsize(t["a"])
    if k == "Diag":
        return len(t["d"])
    if k in ("Ident", "Scal"):
        return t["n"]
    if k == "Perm":
        return len(t["p"])
    if k == "Prod":
        return rsize(t["ms"][0])
    if k == "Kron":
        return math.prod(rsize(x) for x in t["ms"])
    if k == "BDiag":
        return sum(rsize(x) * mu for x, mu in zip(t["ms"], t["mu"]))
    raise AssertionError(k)


def rkinds(t, acc=None):
    acc = acc if acc is not None else []
    acc.append(t["k"] + (":" + t["form"] if t["k"] == "Lazy" else "") + (":" + t["w"] + ":" + t["a"]["k"] if t["k"] == "Wrap" else "")
               + ("+psd" if t.get("psd") else "") + ("+graded" if t.get("graded") else "") + ("+tiny" if t.get("tiny") else ""))
    if t["k"] == "Generic":
        acc.append("Generic:" + t["t"]["k"])
    for x in subs(t):
        rkinds(x, acc)
    return acc


def subs(t):
    return list(t.get("ms", [])) + ([t["a"]] if t["k"] == "Wrap" else [])


def rdepth(t):
    return 1 + max([rdepth(x) for x in subs(t)], default=0)


def rdts(t, acc=None):
    acc = acc if acc is not None else []
    if "dt" in t:
        acc.append(t["dt"])
    if t["k"] == "Generic":
        import opcases as O
        acc += O.leaf_dts(t["t"])
    for x in subs(t):
        rdts(x, acc)
    return acc


def np_arr(rows, dt):
    a = np.array([[cval(v) for v in r] for r in rows], dtype=np.complex128).reshape(len(rows), len(rows[0]) if rows else 0)
    return a.astype(getattr(np, dt)) if dt in T.CPLX else a.real.astype(getattr(np, dt))


def np_vec(vs, dt):
    a = np.array([cval(v) for v in vs], dtype=np.complex128)
    return a.astype(getattr(np, dt)) if dt in T.CPLX else a.real.astype(getattr(np, dt))


def build(t):
    """recipe -> cola operator, through constructors and the public combinators"""
    import cola
    from cola import ops
    k = t["k"]
    if k == "Dense":
        A = ops.Dense(np_arr(t["a"], t["dt"]))
        return cola.PSD(A) if t["psd"] else A
    if k == "Generic":
        return T.build(t["t"])
    if k == "Lazy":
        if t["form"] == "gram":
            G = ops.Dense(np_arr(t["g"], t["dt"]))
            jit = t["jitter"] if t["dt"] in T.REAL else complex(t["jitter"])
            A = G.H @ G + jit * ops.I_like(ops.Dense(np.eye(len(t["g"][0]), dtype=getattr(np, t["dt"]))))
        else:
            A = ops.Dense(np_arr(t["parts"][0], t["dt"])) + ops.Dense(np_arr(t["parts"][1], t["dt"]))
        return cola.PSD(A) if t["psd"] else A
    if k == "Wrap":
        X = build(t["a"])
        if t["via"] == "attr":
            W = X.H if t["w"] == "H" else X.T
        else:
            W = ops.Adjoint(X) if t["w"] == "H" else ops.Transpose(X)
        return cola.PSD(W) if t.get("psd") else W
    if k == "Tri":
        return ops.Triangular(np_arr(t["a"], t["dt"]), lower=t["lower"])
    if k == "Diag":
        return ops.Diagonal(np_vec(t["d"], t["dt"]))
    if k == "Ident":
        return ops.Identity((t["n"], t["n"]), getattr(np, t["dt"]))
    if k == "Scal":
        c = cval(t["c"])
        return ops.ScalarMul(c if t["dt"] in T.CPLX else c.real, (t["n"], t["n"]), getattr(np, t["dt"]))
    if k == "Perm":
        return ops.Permutation(np.array(t["p"], dtype=np.int64), getattr(np, t["dt"]))
    if k == "Prod":
        ms = [build(x) for x in t["ms"]]
        if t.get("via") == "matmul":
            try:
                out = ms[0]
                for m in ms[1:]:
                    out = out @ m
                return out
            except Exception:   # dot(_, Identity) is ambiguous in the pinned tree (recorded under C04)
                return ops.Product(*ms)
        if t.get("via") == "scalar":
            c = cval(t["ms"][0]["c"])
            c = c if t["ms"][0]["dt"] in T.CPLX else c.real
            try:
                return c * ms[1]
            except Exception:
                return ops.Product(*ms)   # complex scalar * real operator is rejected by cola (recorded under C03)
        return ops.Product(*ms)
    if k == "Kron":
        ms = [build(x) for x in t["ms"]]
        if t.get("via") == "kron":
            try:
                out = ms[0]
                for m in ms[1:]:
                    out = cola.kron(out, m)
                return out
            except Exception:   # kron(Kronecker, Kronecker) is ambiguous in the pinned tree (recorded under C04)
                return ops.Kronecker(*ms)
        return ops.Kronecker(*ms)
    if k == "BDiag":
        return ops.BlockDiag(*[build(x) for x in t["ms"]], multiplicities=list(t["mu"]))
    raise AssertionError(k)


def dense(t):
    """independent oracle: the represented matrix, complex128, plain numpy"""
    import scipy.linalg as sl
    k = t["k"]
    C = np.complex128
    if k in ("Dense", "Tri"):
        return np_arr(t["a"], "complex128")
    if k == "Generic":
        return T.dense(t["t"])
    if k == "Lazy":
        if t["form"] == "gram":
            G = np_arr(t["g"], "complex128")
            return G.conj().T @ G + t["jitter"] * np.eye(G.shape[1], dtype=C)
        return np_arr(t["parts"][0], "complex128") + np_arr(t["parts"][1], "complex128")
    if k == "Wrap":
        X = dense(t["a"])
        return X.conj().T if t["w"] == "H" else X.T
    if k == "Diag":
        return np.diag(np_vec(t["d"], "complex128"))
    if k == "Ident":
        return np.eye(t["n"], dtype=C)
    if k == "Scal":
        return cval(t["c"]) * np.eye(t["n"], dtype=C)
    if k == "Perm":
        n = len(t["p"])
        a = np.zeros((n, n), dtype=C)
        for i, p in enumerate(t["p"]):
            a[i, p] = 1
        return a
    if k == "Prod":
        out = dense(t["ms"][0])
        for x in t["ms"][1:]:
            out = out @ dense(x)
        return out
    if k == "Kron":
        out = dense(t["ms"][0])
        for x in t["ms"][1:]:
            out = np.kron(out, dense(x))
        return out
    if k == "BDiag":
        blocks = [dense(x) for x, mu in zip(t["ms"], t["mu"]) for _ in range(mu)]
        return sl.block_diag(*blocks).astype(C)
    raise AssertionError(k)


# ------------------------------------------------------------------ exact oracle (wide regime): Gaussian-rational determinant
class GQ:
    """Gaussian rational a + b i with Fraction components"""
    __slots__ = ("a", "b")

    def __init__(self, a, b=0):
        self.a, self.b = Fraction(a), Fraction(b)

    def __add__(self, o):
        return GQ(self.a + o.a, self.b + o.b)

    def __sub__(self, o):
        return GQ(self.a - o.a, self.b - o.b)

    def __mul__(self, o):
        return GQ(self.a * o.a - self.b * o.b, self.a * o.b + self.b * o.a)

    def inv(self):
        n2 = self.a * self.a + self.b * self.b
        return GQ(self.a / n2, -self.b / n2)

    def conj(self):
        return GQ(self.a, -self.b)

    def nz(self):
        return self.a != 0 or self.b != 0


def _gq_arr(M):
    M = np.asarray(M)
    return [[GQ(Fraction(float(np.real(v))), Fraction(float(np.imag(v)))) for v in row] for row in M]


def _gq_mul(A, B):
    return [[_gq_sum(A[i][k] * B[k][j] for k in range(len(B))) for j in range(len(B[0]))] for i in range(len(A))]


def _gq_sum(it):
    out = GQ(0)
    for x in it:
        out = out + x
    return out


def exact_dense(t):
    """the represented matrix in exact arithmetic: the payloads as stored in the operator's dtype, combined without rounding"""
    k = t["k"]
    Z, O = GQ(0), GQ(1)
    if k in ("Dense", "Tri"):
        return _gq_arr(np_arr(t["a"], t["dt"]))
    if k == "Generic":
        return _gq_arr(T.dense(t["t"]))
    if k == "Lazy":
        if t["form"] == "gram":
            G = _gq_arr(np_arr(t["g"], t["dt"]))
            GH = [[G[i][j].conj() for i in range(len(G))] for j in range(len(G[0]))]
            M = _gq_mul(GH, G)
            jit = GQ(Fraction(float(t["jitter"])))
            return [[M[i][j] + (jit if i == j else Z) for j in range(len(M))] for i in range(len(M))]
        A, B = _gq_arr(np_arr(t["parts"][0], t["dt"])), _gq_arr(np_arr(t["parts"][1], t["dt"]))
        return [[A[i][j] + B[i][j] for j in range(len(A))] for i in range(len(A))]
    if k == "Wrap":
        X = exact_dense(t["a"])
        return [[(X[j][i].conj() if t["w"] == "H" else X[j][i]) for j in range(len(X))] for i in range(len(X))]
    if k == "Diag":
        d = _gq_arr([np_vec(t["d"], t["dt"])])[0]
        return [[d[i] if i == j else Z for j in range(len(d))] for i in range(len(d))]
    if k == "Ident":
        return [[O if i == j else Z for j in range(t["n"])] for i in range(t["n"])]
    if k == "Scal":
        c = _gq_arr([np_vec([t["c"]], t["dt"])])[0][0]
        return [[c if i == j else Z for j in range(t["n"])] for i in range(t["n"])]
    if k == "Perm":
        n = len(t["p"])
        return [[O if t["p"][i] == j else Z for j in range(n)] for i in range(n)]
    if k == "Prod":
        out = exact_dense(t["ms"][0])
        for x in t["ms"][1:]:
            out = _gq_mul(out, exact_dense(x))
        return out
    if k == "Kron":
        out = exact_dense(t["ms"][0])
        for x in t["ms"][1:]:
            B = exact_dense(x)
            m = len(B)
            out = [[out[i // m][j // m] * B[i % m][j % m] for j in range(len(out) * m)] for i in range(len(out) * m)]
        return out
    if k == "BDiag":
        blocks = [exact_dense(x) for x, mu in zip(t["ms"], t["mu"]) for _ in range(mu)]
        n = sum(len(b) for b in blocks)
        out = [[Z] * n for _ in range(n)]
        o = 0
        for b in blocks:
            for i in range(len(b)):
                for j in range(len(b)):
                    out[o + i][o + j] = b[i][j]
            o += len(b)
        return out
    raise AssertionError(k)


def exact_slogdet(t):
    """(phase, log|det|) of the exact determinant (Gaussian elimination over the Gaussian rationals)"""
    M = [row[:] for row in exact_dense(t)]
    n = len(M)
    det = GQ(1)
    for c in range(n):
        p = next((r for r in range(c, n) if M[r][c].nz()), None)
        if p is None:
            return 0j, float("-inf")
        if p != c:
            M[c], M[p] = M[p], M[c]
            det = det * GQ(-1)
        det = det * M[c][c]
        iv = M[c][c].inv()
        for r in range(c + 1, n):
            if M[r][c].nz():
                f = M[r][c] * iv
                M[r] = [M[r][j] - f * M[c][j] if j >= c else M[r][j] for j in range(n)]
    n2 = det.a * det.a + det.b * det.b
    logabs = 0.5 * (math.log(n2.numerator) - math.log(n2.denominator))
    m = max(abs(det.a), abs(det.b))
    z = complex(float(det.a / m), float(det.b / m))
    return z / abs(z), logabs


# ------------------------------------------------------------------ cola object -> decorated model tree
def model_tree(A, alg, need):
    """Inspect the cola object (class, public attributes) and decorate base-case nodes with the oracle answers
    (scipy/LAPACK lu, numpy cholesky of the node's dense matrix; for the Krylov path the value of
    trace(log(A, alg), trace_alg) obtained through the public API).  `need(psd, n)` says which decoration the
    selected algorithm reads (mirrors C07_Slogdet.pick)."""
    import cola
    from cola import ops
    from cola.annotations import PSD
    if isinstance(A, ops.Triangular):
        return dict(k="STri", n=A.shape[0], lower=bool(A.lower), a=np.asarray(A.A))
    if isinstance(A, ops.Diagonal):
        return dict(k="SDiag", d=np.asarray(A.diag))
    if isinstance(A, ops.Identity):
        return dict(k="SIdent", n=A.shape[0])
    if isinstance(A, ops.ScalarMul):
        return dict(k="SScal", c=complex(A.c), n=A.shape[0])
    if isinstance(A, ops.Permutation):
        return dict(k="SPerm", p=[int(x) for x in np.asarray(A.perm)])
    if isinstance(A, ops.Kronecker):
        return dict(k="SKron", ms=[model_tree(M, alg, need) for M in A.Ms])
    if isinstance(A, ops.BlockDiag):
        return dict(k="SBDiag", ms=[model_tree(M, alg, need) for M in A.Ms], mu=[int(m) for m in A.multiplicities])
    if isinstance(A, ops.Product):
        allsq = all(M.shape[-2] == M.shape[-1] for M in A.Ms)
        if allsq:
            return dict(k="SProd", ms=[model_tree(M, alg, need) for M in A.Ms], base=None, shape=list(A.shape))
        return dict(k="SProd", ms=[dict(k="SBase", shape=list(M.shape), dense=np.asarray(M.to_dense()), dec=None, psd=bool(M.isa(PSD))) for M in A.Ms],
                    base=base_dec(A, alg, need), shape=list(A.shape))
    return dict(k="SBase", shape=list(A.shape), dense=np.asarray(A.to_dense()), dec=base_dec(A, alg, need), psd=bool(A.isa(PSD)))


def base_dec(A, alg, need):
    import scipy.linalg as sl
    from cola.annotations import PSD
    psd = bool(A.isa(PSD))
    D = np.asarray(A.to_dense())
    n = D.shape[0]
    which = need(psd, n)
    dec = dict(psd=psd, which=which, n=n)
    with np.errstate(all="ignore"):
        try:
            dec["cond"] = float(np.linalg.cond(D.astype(np.complex128))) if n else 1.0
        except np.linalg.LinAlgError:
            dec["cond"] = float("nan")
    if which == "lu":
        p, L, U = sl.lu(D, p_indices=True)
        dec.update(p=[int(x) for x in p], L=L, U=U, resid=float(min(np.abs(L @ U - D[p]).max(), np.abs((L @ U)[p] - D).max())))
    elif which == "chol":
        Lc = np.linalg.cholesky(D)
        dec.update(ch=Lc, resid=float(np.abs(Lc @ Lc.conj().T - D).max()))
    elif which == "kry":
        import cola.linalg as cl
        t = cl.trace(cl.log(A, alg["obj"]), alg["trace_obj"])
        dec.update(kt=complex(t), dense=D, uneven=uneven_krylov(D), branch_cut=on_branch_cut(D))
        try:
            dec["unary"] = unary_data(A, alg)
        except Exception as e:   # the oracle calls themselves failed: no unary-model comparison for this node
            dec["unary"] = dict(error=type(e).__name__ + ": " + str(e)[:100])
    return dec


def unary_data(A, alg):
    """oracle data of LanczosUnary._matmat / ArnoldiUnary._matmat applied to the identity (what trace(log(A, alg), Exact) reads):
    cola's own Krylov factorisation of every unit vector (public functions lanczos / arnoldi), LAPACK eigh / eig / solve of the
    projected matrices and numpy's log of the Ritz values.  The masking rule and the contraction are the MODEL (C07_Unary.v)."""
    from cola.linalg.decompositions.lanczos import lanczos
    from cola.linalg.decompositions.arnoldi import arnoldi
    from cola import ops
    adj = False
    while type(A).__name__.split("[")[0] in ("Transpose", "Adjoint"):   # apply_unary(f, Transpose|Adjoint) recurses into the wrapped operator
        adj ^= isinstance(A, ops.Adjoint)
        A = A.A
    if isinstance(A, (ops.Diagonal, ops.BlockDiag, ops.Identity, ops.ScalarMul)):
        return dict(error="structural apply_unary rule behind the wrapper (not a Krylov matrix function)")
    xnp, n = A.xnp, A.shape[0]
    V = np.eye(n, dtype=A.dtype)
    kw = dict(alg["obj"].__dict__)
    kw.pop("start_vector", None)
    norms = np.linalg.norm(V, axis=0)
    if alg["name"] == "lanczos":
        Q, Tm, _ = lanczos(A, V, **kw)
        w, P = np.linalg.eigh(xnp.vmap(Tm.__class__.to_dense)(Tm))
        Q = xnp.vmap(Q.__class__.to_dense)(Q)
        c = np.conj(P)[:, 0, :] * norms[:, None]
    else:
        Q, H, _ = arnoldi(A=A, start_vector=V, **kw)
        Q, H = Q.to_dense()[:, :, :-1], H.to_dense()[:, :-1]
        w, P = np.linalg.eig(H)
        e0 = np.zeros((P.shape[1], n), dtype=P.dtype)
        e0[0] = 1
        c = np.linalg.solve(P, e0.T[..., None]).squeeze(-1) * norms[:, None]
        Q = Q.astype(P.dtype)
    eps = float(np.finfo(A.dtype).eps)
    thr = 10 * eps * np.max(np.abs(w), axis=1, keepdims=True)
    with np.errstate(all="ignore"):
        fw = np.log(w)
    keep = np.abs(w) > thr
    near_tie = bool(np.any(np.abs(np.abs(w) - thr) <= 1e-6 * thr))
    # a (nearly) defective projected matrix: the eigenvector basis P is ill conditioned and the float contraction Q P (f * P^-1 e0) loses
    # eps * cond(P) to cancellation, so it cannot be compared with exact arithmetic on the same data
    with np.errstate(all="ignore"):
        try:
            near_tie = near_tie or not (max(float(np.linalg.cond(P[i])) for i in range(P.shape[0])) <= 1e4)
        except np.linalg.LinAlgError:
            near_tie = True
    nonfinite = bool(np.any(keep & ~np.isfinite(fw))) or not (np.all(np.isfinite(Q)) and np.all(np.isfinite(P)) and np.all(np.isfinite(c)) and np.all(np.isfinite(w)))
    fw = np.where(np.isfinite(fw), fw, 0)
    return dict(adj=bool(adj), Q=Q, P=P, w=w, fw=fw, c=c, eps=eps, near_tie=near_tie, nonfinite=nonfinite, masked=int((~keep).sum()),
                below_tol=int((keep & (np.abs(w) <= kw.get("tol", 0) * np.max(np.abs(w), axis=1, keepdims=True))).sum()))


def coq_ucase(u, t, tol):
    from fractions import Fraction
    e10 = Fraction(10) * Fraction(u["eps"])
    cols = []
    for i in range(u["Q"].shape[0]):
        cols.append(f"(mkucol {qrows(u['Q'][i])} {qrows(u['P'][i])} [{';'.join(qi_lit(v) for v in u['w'][i])}] "
                    f"[{';'.join(qi_lit(v) for v in u['fw'][i])}] [{';'.join(qi_lit(v) for v in u['c'][i])}])")
    return f"(mkucase (qc ({e10.numerator}) {e10.denominator}) {'true' if u['adj'] else 'false'} [{';'.join(cols)}] {qi_lit(t)} {qc_lit(tol)})"


def on_branch_cut(D):
    """a complex-dtype node with an eigenvalue on (numerically: within 1e-4 relative of) the negative real axis: the principal
    logarithm is discontinuous there and the side is decided by rounding"""
    if not np.iscomplexobj(D):
        return False
    ev = np.linalg.eigvals(D.astype(np.complex128))
    return bool(np.any((ev.real < 0) & (np.abs(ev.imag) <= 1e-4 * np.abs(ev))))


def uneven_krylov(D):
    """do the unit vectors generate Krylov spaces of different dimensions (e.g. block-diagonal operators)?"""
    n = D.shape[0]
    dims = set()
    for i in range(n):
        v = np.zeros(n, dtype=np.complex128)
        v[i] = 1
        K = [v]
        for _ in range(n - 1):
            w = D @ K[-1]
            K.append(w / max(np.linalg.norm(w), 1e-300))
        dims.add(int(np.linalg.matrix_rank(np.array(K).T, tol=1e-8)))
    return len(dims) > 1


# ------------------------------------------------------------------ Coq printing
def fr(x):
    f = Fraction(float(x))
    return f.numerator, f.denominator


def qi_lit(z):
    z = complex(z)
    a, b = fr(z.real)
    c, d = fr(z.imag)
    return f"(qic ({a}) {b} ({c}) {d})"


def qc_lit(x):
    a, b = fr(x)
    return f"(qc ({a}) {b})"


def qrows(M):
    M = np.asarray(M)
    return "[" + ";".join("[" + ";".join(qi_lit(v) for v in row) + "]" for row in M) + "]"


def nlist(xs):
    return "[" + ";".join(f"{int(x)}%nat" for x in xs) + "]"


def coq_based(dec, ltype):
    kt0 = "sd1" if ltype == "sd" else "0%Qc"
    if dec is None:
        return f"(mkbased false nolu nofm {kt0})"
    psd = "true" if dec["psd"] else "false"
    lu, ch, kt = "nolu", "nofm", kt0
    if dec["which"] == "lu":
        lu = f"(mklu (nvec {nlist(dec['p'])}) (qfm {qrows(dec['L'])}) (qfm {qrows(dec['U'])}))"
    elif dec["which"] == "chol":
        ch = f"(qfm {qrows(dec['ch'])})"
    elif dec["which"] == "kry" and ltype == "qc":
        kt = qc_lit(dec["kt"].real)
    return f"(mkbased {psd} {lu} {ch} {kt})"


def coq_sop(m, ltype="sd"):
    k = m["k"]
    if k == "SBase":
        r, c = m["shape"]
        dec = m["dec"] if m["dec"] is not None else None
        if dec is None and m.get("psd"):
            dec = dict(psd=True, which="none")
        return f"(SBase (Dense (mkarr {r} {c} (qfm {qrows(m['dense'])}))) {coq_based(dec, ltype)})"
    if k == "STri":
        return f"(STri {m['n']} {'true' if m['lower'] else 'false'} (qfm {qrows(m['a'])}))"
    if k == "SDiag":
        return f"(SDiag {len(m['d'])} (qvec [{';'.join(qi_lit(v) for v in m['d'])}]))"
    if k == "SIdent":
        return f"(SIdent {m['n']})"
    if k == "SScal":
        return f"(SScal {qi_lit(m['c'])} {m['n']})"
    if k == "SPerm":
        return f"(SPerm {len(m['p'])} (nvec {nlist(m['p'])}))"
    if k == "SProd":
        return "(SProd [" + ";".join(coq_sop(x, ltype) for x in m["ms"]) + "] " + coq_based(m["base"], ltype) + ")"
    if k == "SKron":
        return "(SKron [" + ";".join(coq_sop(x, ltype) for x in m["ms"]) + "])"
    if k == "SBDiag":
        return "(SBDiag [" + ";".join(f"({coq_sop(x, ltype)}, {mu}%nat)" for x, mu in zip(m["ms"], m["mu"])) + "])"
    raise AssertionError(k)


def decs(m, acc=None):
    acc = acc if acc is not None else []
    if m["k"] == "SBase" and m["dec"] is not None:
        acc.append(m["dec"])
    if m["k"] == "SProd" and m["base"] is not None:
        acc.append(m["base"])
    for x in m.get("ms", []):
        decs(x, acc)
    return acc


def mkinds(m, acc=None):
    acc = acc if acc is not None else []
    acc.append(m["k"])
    for x in m.get("ms", []):
        mkinds(x, acc)
    return acc
