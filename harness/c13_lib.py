"""C13 helpers: generators of invertible systems, runner of cola's gmres, emitter of Coq case files for
coq/C13_Check.v, independent numpy oracle (least-squares optimum over the Krylov space), stability filter."""
import re
import numpy as np
import shim  # noqa: F401
import cola
from cola.ops import Dense
import core
import c12_lib as L

KINDS = ("shifted", "normal", "nonnormal", "spd", "orthogonal", "triangular")
SPREAD_KINDS = ("outliers", "outliers_nonnormal", "graded", "clustered")       # widely spread spectra, condition numbers up to 1e4


def make_matrix(rs, n, cplx, kind, kappa):
    """invertible n x n matrix, 2-norm condition number about kappa (exactly for the normal kinds)"""
    if n == 1:
        v = rs.uniform(0.5, 2.0) * rs.choice([-1.0, 1.0])
        return np.array([[v + (1j * rs.uniform(-1, 1) if cplx else 0)]])
    Q = L.rand_unitary(rs, n, cplx)
    if kind in SPREAD_KINDS:
        unit = (lambda k: np.exp(1j * rs.uniform(0, 2 * np.pi, size=k))) if cplx else (lambda k: rs.choice([-1.0, 1.0], size=k))
        if kind.startswith("outliers"):        # a bulk in [1, 3] and 1-3 eigenvalues 300-1000 times larger
            mod = rs.uniform(1, 3, size=n)
            idx = rs.choice(n, size=min(n - 1, int(rs.integers(1, 4))), replace=False)
            mod[idx] = mod[idx] * kappa / 3 * rs.uniform(0.5, 1.0, size=len(idx))
        elif kind == "graded":                 # geometrically graded moduli 1 .. kappa
            mod = kappa ** (np.arange(n) / (n - 1))
        else:                                  # two or three tight clusters spread over 1 .. kappa
            cl = int(rs.integers(2, 4))
            mod = (kappa ** (np.arange(cl) / (cl - 1)))[rs.integers(0, cl, size=n)] * (1 + 1e-2 * rs.random(n))
        lam = mod * unit(n)
        if kind == "outliers_nonnormal":
            S = np.eye(n) + 0.3 * np.triu(rs.normal(size=(n, n)), 1) / np.sqrt(n)
            A = Q @ S @ np.diag(lam) @ np.linalg.inv(S) @ Q.conj().T
        else:
            A = (Q * lam) @ Q.conj().T
        A = A * 10.0 ** rs.uniform(-1, 1)
        return A if cplx else np.real(A)
    sv = kappa ** (np.sort(rs.random(n)))
    sv[0], sv[-1] = 1.0, kappa
    if kind == "spd":
        A = (Q * sv) @ Q.conj().T
    elif kind == "normal":
        if cplx:
            lam = sv * np.exp(1j * rs.uniform(0, 2 * np.pi, size=n))
        else:
            lam = sv * rs.choice([-1.0, 1.0], size=n)
        A = (Q * lam) @ Q.conj().T
    elif kind == "orthogonal":
        A = Q * rs.uniform(0.5, 2.0)
    elif kind == "nonnormal":
        U = L.rand_unitary(rs, n, cplx)
        A = (Q * sv) @ U.conj().T                      # singular values sv, arbitrary (non-normal) otherwise
    elif kind == "triangular":
        Tm = np.triu(rs.normal(size=(n, n)) + (1j * rs.normal(size=(n, n)) if cplx else 0), 1) * 0.5
        A = np.diag(sv * rs.choice([-1.0, 1.0], size=n)) + Tm
    else:  # shifted Gaussian
        G = rs.normal(size=(n, n)) + (1j * rs.normal(size=(n, n)) if cplx else 0)
        A = G / np.sqrt(n) + (1.5 + 1.5 / max(kappa - 1, 0.2)) * np.eye(n)
    A = A * 10.0 ** rs.uniform(-1, 1)
    return A if cplx else np.real(A)


# ---------------------------------------------------------------- implementation runner
def run_impl(case, via_inv=False):
    from cola.linalg.inverse.gmres import gmres, GMRES
    A, B, X0 = case["A"], case["B"], case["X0"]
    obs = {}
    try:
        op = L.CountingOp(A.copy())
        vecapi = case.get("vector_api", False)
        b = B[:, 0].copy() if vecapi else B.copy()
        x0 = None if X0 is None else (X0[:, 0].copy() if vecapi else X0.copy())
        if via_inv:
            inv = cola.linalg.inv(op, GMRES(tol=case["tol"], max_iters=case["m"], x0=x0))
            x = inv @ b
        else:
            x, info = gmres(op, b, x0=x0, max_iters=case["m"], tol=case["tol"])
        x = np.asarray(x)
        obs["shape_ok"] = (x.shape == b.shape)
        obs["x"] = x.reshape(B.shape) if x.size == B.size else x
        obs["products"] = op.count
        obs["widths"] = list(op.widths)
        obs["steps"] = op.count - 1
        L.COUNTS.pop(op.tag, None)
        obs["ok"] = True
    except Exception as e:
        obs["ok"] = False
        obs["err"] = type(e).__name__ + ": " + str(e)[:300]
    return obs


# ---------------------------------------------------------------- Coq emission
HEADER = ("From Coq Require Import List Bool Arith NArith PrimFloat.\nFrom Core Require Import C12_Ops C13_Model C13_Check.\n"
          "Import ListNotations.\nOpen Scope float_scope.\n")


def coq_case(case, obs, sysname, flags):
    cplx = case["cplx"]
    B = case["B"]
    X0 = case["X0"] if case["X0"] is not None else np.zeros_like(B)
    X = obs["x"]
    scales = [float(np.max(np.abs(X[:, j]))) for j in range(X.shape[1])]
    fl = model_flags(flags)
    tf = lambda v: "true" if v else "false"
    mfac = (10 * case["tol"]) if flags.get("gmres_mask_tol", True) else 10 * 2.220446049250313e-16      # zero_thresh = 10 * tol * overall_max
    return ("{| gA := %s_A; gB := %s; gX0 := %s; gtol := %s; gmfac := %s; gm := %d%%N; gflag := %s; gfpad := %s; gfself := %s; gfzero := %s; gfabs := %s;\n"
            "   geX := %s; geScale := %s; geSteps := %d%%N |}"
            % (sysname, L.cols(B, cplx), L.cols(X0, cplx), L.sc(case["tol"], cplx), L.sc(mfac, cplx), case["m"], tf(fl["gmres_square_H"]),
               tf(fl["arnoldi_padding"]), tf(fl["arnoldi_breakdown_continues"]), tf(fl["gmres_zero_residual_nan"]), tf(fl["arnoldi_absolute_clip"]),
               L.cols(X, cplx), "[" + ";".join(L.fl(s) for s in scales) + "]", obs["steps"]))


def eval_in_coq(name, items, flags, shard=100, timeout=900):
    """items: list of (case, obs). Returns (failing indices, error or None)."""
    jobs, index = [], []
    for cplx in (False, True):
        sel = [i for i, (c, o) in enumerate(items) if c["cplx"] == cplx]
        for s in range(0, len(sel), shard):
            part = sel[s:s + shard]
            systems, body, terms = {}, [], []
            for i in part:
                c, o = items[i]
                key = c["sys_id"]
                if key not in systems:
                    systems[key] = "s%d" % len(systems)
                    body.append("Definition %s_A := %s.\n" % (systems[key], L.mat_rows(c["A"], cplx)))
                terms.append(coq_case(c, o, systems[key], flags))
            ty = "cpx" if cplx else "float"
            text = HEADER + "".join(body) + "Definition cases : list (gcase %s) := [\n" % ty + ";\n".join(terms) + "].\n"
            text += "Eval vm_compute in (length cases, %s cases).\n" % ("failing_cplx" if cplx else "failing_real")
            jobs.append(("%s_%s%d" % (name, "c" if cplx else "r", s // shard), text))
            index.append(part)
    outs = core.coqc_many(jobs, timeout)
    failing = []
    for part, (rc, out) in zip(index, outs):
        m = re.search(r"=\s*\((\d+),\s*\[(.*?)\]\)", out.replace("%nat", ""), flags=re.S)
        if rc != 0 or not m or int(m.group(1)) != len(part):
            return None, "coqc rc=%s\n%s" % (rc, out[-1500:])
        if m.group(2).strip():
            failing += [part[int(x)] for x in m.group(2).replace("\n", " ").split(";") if x.strip()]
    return failing, None


# ---------------------------------------------------------------- independent oracle
def krylov_basis(A, r0, m):
    K = []
    v = r0.copy()
    for _ in range(m):
        w = v.copy()
        nb = np.linalg.norm(w)
        for _rep in range(2):
            for q in K:
                w = w - (q.conj() @ w) * q
        nw = np.linalg.norm(w)
        if nw <= 1e-10 * max(nb, 1e-300) or nb == 0:
            break
        q = w / nw
        K.append(q)
        v = A @ q
    return np.stack(K, 1) if K else np.zeros((len(r0), 0), dtype=A.dtype)


def ls_optimum(A, b, x0, m):
    """argmin ||b - A x|| over x0 + K_m(A, r0): dense least squares on an orthonormal Krylov basis.
    Returns (x, residual norm, dimension of the Krylov space reached)."""
    r0 = b - A @ x0
    K = krylov_basis(A, r0, m)
    if K.shape[1] == 0:
        return x0.copy(), float(np.linalg.norm(r0)), 0
    y = np.linalg.lstsq(A @ K, r0, rcond=None)[0]
    x = x0 + K @ y
    return x, float(np.linalg.norm(b - A @ x)), K.shape[1]


def diagnostics(case, flags):
    """input-only diagnostics of the binary64 reference recurrence at the probed flag vector, per column:
    overrun (further steps after the column's own breakdown/convergence), lastsub (relative size of H[m, m-1]),
    masked_genuine (a filled column of H falls under the padding mask 10*tol*max|H|), abs_clip (a remainder that is not small
    relative to ||A q_0|| falls under the absolute tol/2), steps."""
    B = case["B"]
    nc = B.shape[1]
    X0 = case["X0"] if case["X0"] is not None else np.zeros_like(B)
    try:
        with np.errstate(all="ignore"):
            return ref_gmres(case["A"], B, X0, case["m"], case["tol"], np.complex128 if case["cplx"] else np.float64, flags, solve=False)
    except Exception:
        return dict(steps=-1, overrun=[True] * nc, lastsub=[1.0] * nc, masked_genuine=[True] * nc, abs_clip=[True] * nc)


def oracle(case, obs, flags):
    """property clauses on the implementation's output; returns (failed clauses, info).
    Regions spoiled by recorded defects (skipped while the corresponding flag is present):
      gmres_square_H               truncated runs (Krylov space not exhausted): minimal-residual clauses
      arnoldi_breakdown_continues  columns whose Krylov space is exhausted strictly before min(m, n) steps: the loop
                                   goes on with clipped noise vectors; minimal-residual clauses, LinAlgError
      arnoldi_padding              max_iters > n: LinAlgError from the padded normal equations"""
    bad, info = [], {}
    A, B = case["A"], case["B"]
    n, nc = B.shape
    m = case["m"]
    dg = diagnostics(case, flags)
    early, lastsub = dg["overrun"], dg["lastsub"]
    stopped_early = 0 <= dg["steps"] < min(m, n)
    if not obs.get("ok"):
        err = obs.get("err", "")
        if "LinAlgError" in err and ((flags.get("arnoldi_padding") and m > n) or (flags.get("arnoldi_breakdown_continues") and any(early))):
            info["attributed_exception"] = 1
            return [], info
        return ["raised " + err], info
    X0 = case["X0"] if case["X0"] is not None else np.zeros_like(B)
    X = obs["x"]
    if not obs["shape_ok"]:
        bad.append("shape of the solution")
    if obs["products"] > min(m, n) + 1:
        bad.append("%d products with A for max_iters=%d, n=%d (at most min(m,n)+1 expected)" % (obs["products"], m, n))
    if any(w != nc for w in obs["widths"]):
        bad.append("a product with A was not one batched application to all %d columns: widths %s" % (nc, obs["widths"]))
    tol = case["tol"]
    kap = case.get("kappa", 1.0)
    checked = 0
    anorm2 = float(np.linalg.norm(A, 2))
    info["exhausted"] = 0
    for j in range(nc):
        b, x0 = B[:, j], X0[:, j]
        r0n = float(np.linalg.norm(b - A @ x0))
        xo, ro, dim = ls_optimum(A, b, x0, m)
        # attainable accuracy of any residual computed in binary64 (matters for warm starts, where ||r0|| is tiny relative
        # to ||b||): observed <= 0.7 eps (||A|| ||x|| + ||b||) on the unchanged tree, allowed 200 eps (...)
        floor = 200 * 2.2e-16 * (anorm2 * float(np.linalg.norm(X[:, j] if np.all(np.isfinite(X[:, j])) else x0)) + float(np.linalg.norm(b)))
        exhausted = ro <= 1e-9 * r0n + floor
        info["exhausted"] += int(exhausted)
        if flags.get("gmres_square_H") and (not exhausted or lastsub[j] > 1e-10):
            continue      # the dropped Hessenberg entry H[m, m-1] is not negligible (truncated run, or orthogonality lost)
        if flags.get("arnoldi_breakdown_continues") and early[j]:
            continue
        if flags.get("gmres_mask_tol") and dg["masked_genuine"][j]:
            continue      # a genuine column of H is below 10*tol*max|H| and is treated as padding
        if flags.get("arnoldi_absolute_clip") and dg["abs_clip"][j]:
            continue      # a remainder of ordinary relative size is below the absolute tol/2: the basis is cut short
        checked += 1
        if not np.all(np.isfinite(X[:, j])):
            bad.append("column %d: non-finite solution" % j)
            continue
        res = float(np.linalg.norm(b - A @ X[:, j]))
        # rounding of the normal equations (cond(H)^2 eps), and - only when Arnoldi stopped before min(m, n) steps because the
        # remainder fell below tol * ||A q_0|| - the accuracy the caller's tol asks for
        slack = (1e-6 + 1e-11 * kap * kap + (30 * tol * kap if (stopped_early or early[j]) else 0.0)) * r0n + floor
        info["excess_worst"] = max(info.get("excess_worst", 0.0), (res - ro) / r0n if r0n > 0 else 0.0)
        info["ratio_worst"] = max(info.get("ratio_worst", 0.0), res / r0n if r0n > 0 else 0.0)
        if res > ro * (1 + 1e-6) + slack:
            bad.append("column %d: residual %.6e exceeds the least-squares optimum %.6e over x0+K_%d (||r0||=%.3e)" % (j, res, ro, m, r0n))
        if res > r0n * (1 + 1e-9) + slack:
            bad.append("column %d: residual %.6e larger than the initial residual %.6e" % (j, res, r0n))
    info["minres_checked"] = checked
    info["early_breakdown"] = int(any(early))
    return bad, info


# ---------------------------------------------------------------- numerical-stability filter (case selection only)
def _ge_solve(G, b):
    """Gaussian elimination with partial pivoting in the dtype of G (np.linalg.solve has no extended precision)"""
    G = G.copy()
    b = b.copy()
    n = len(b)
    for k in range(n):
        p = k + int(np.argmax(np.abs(G[k:, k])))
        if p != k:
            G[[k, p]] = G[[p, k]]
            b[[k, p]] = b[[p, k]]
        for i in range(k + 1, n):
            f = G[i, k] / G[k, k]
            G[i, k:] = G[i, k:] - f * G[k, k:]
            b[i] = b[i] - f * b[k]
    x = np.zeros_like(b)
    for k in range(n - 1, -1, -1):
        x[k] = (b[k] - G[k, k + 1:] @ x[k + 1:]) / G[k, k]
    return x


PINNED = dict(gmres_square_H=True, arnoldi_padding=True, arnoldi_breakdown_continues=True, gmres_zero_residual_nan=True, arnoldi_absolute_clip=True)


def model_flags(flags):
    """the flag vector the Coq model / the reference recurrence run with (a flag that was never probed counts as repaired)"""
    return {k: bool(flags.get(k, False)) for k in PINNED}


def ref_gmres(A, B, X0, m, tol, dtype, flags, solve=True):
    """Reference recurrence of arnoldi_fact + gmres_fwd at the given flag vector, in precision `dtype`; used ONLY to decide
    whether a case is numerically stable enough for a tolerance comparison and to locate the regions recorded defects spoil
    (it depends on the inputs only, never on cola's output)."""
    fl = model_flags(flags)
    mfac = 10 * tol if flags.get("gmres_mask_tol", True) else 10 * 2.220446049250313e-16       # relative cut-off of the padding mask
    A, B, X0 = A.astype(dtype), B.astype(dtype), X0.astype(dtype)
    n, nc = B.shape
    mb = m if fl["arnoldi_padding"] else min(m, n)
    R = B - A @ X0
    H = np.zeros((nc, mb + 1, mb), dtype=dtype)
    Q = np.zeros((nc, n, mb + 1), dtype=dtype)
    norm = np.sqrt(np.sum((R.conj() * R).real, axis=0))
    Q[:, :, 0] = (R / (norm if fl["gmres_zero_residual_nan"] else np.where(norm == 0, 1, norm))).T
    cap, idx, margins, decisions = min(m, n), 0, [], []
    overrun = np.zeros(nc, dtype=bool)     # the loop went on after this column's own breakdown / convergence
    done = np.zeros(nc, dtype=bool)
    min_rel_norm = np.full(nc, np.inf)     # smallest remainder norm relative to ||A q_0|| met while normalising
    abs_clip = np.zeros(nc, dtype=bool)    # a remainder that is NOT small relative to ||A q_0|| fell under the absolute tol/2
    while True:
        if idx >= cap:
            break
        if idx > 0:
            ref_ = tol * (H[:, 1, 0].real if fl["arnoldi_breakdown_continues"] else np.sqrt(np.sum(np.abs(H[:, :, 0]) ** 2, axis=-1)))
            margins.append(float(np.min(np.abs(norm - ref_) / np.maximum(np.abs(ref_), 1e-300))))
            decisions.append((np.array(norm, dtype=np.longdouble), np.array(ref_, dtype=np.longdouble)))
            if not np.any(norm > ref_):
                break
            done = done | ~(norm > ref_)
        overrun = overrun | done
        new = (A @ Q[:, :, idx].T).T.copy()
        h = np.zeros((nc, mb + 1), dtype=dtype)
        for j in range(idx + 1):
            h[:, j] = np.sum(np.conj(Q[:, :, j]) * new, axis=-1)
            new = new - h[:, [j]] * Q[:, :, j]
        norm = np.sqrt(np.sum((new.conj() * new).real, axis=-1))
        h[:, idx + 1] = norm
        H[:, :, idx] = h
        aq0 = np.sqrt(np.sum(np.abs(H[:, :, 0]) ** 2, axis=-1))
        thr = np.full(nc, tol / 2, dtype=norm.dtype) if fl["arnoldi_absolute_clip"] else tol / 2 * aq0     # breakdown threshold of this step
        margins.append(float(np.min(np.abs(norm - thr) / np.maximum(thr, 1e-300))))
        decisions.append((np.array(norm, dtype=np.longdouble), np.array(thr, dtype=np.longdouble)))
        rel = norm / np.where(aq0 == 0, 1, aq0)
        abs_clip = abs_clip | ((norm <= thr) & (rel > 1e-6) & ~done)
        done = done | (norm <= thr)
        if fl["arnoldi_breakdown_continues"]:
            new = new / np.maximum(norm, thr)[:, None]
        else:
            new = np.where((norm > thr)[:, None], new / np.maximum(norm, thr)[:, None], 0)
        Q[:, :, idx + 1] = new
        idx += 1
    sq = fl["gmres_square_H"]
    Hm = H[:, :-1, :] if sq else H
    hmax = np.max(np.abs(H.reshape(nc, -1)), axis=1) if mb > 0 else np.ones(nc)
    lastsub = np.abs(H[:, mb, mb - 1]) / np.where(hmax == 0, 1.0, hmax) if mb > 0 else np.zeros(nc)   # the entry a square H drops
    # genuine (filled, non-negligible) columns of H that the mask 10*tol*max|H| treats as padding
    masked_genuine = []
    for c in range(nc):
        largest = np.max(np.abs(Hm[c]), -1) if sq else np.max(np.abs(Hm[c]), 0)
        thresh = mfac * (np.max(largest) if largest.size else 0)
        colmax = np.max(np.abs(H[c]), 0) if mb > 0 else np.zeros(0)
        masked_genuine.append(bool(np.any((largest <= thresh)[:idx] & (colmax[:idx] > 1e-13 * (hmax[c] if hmax[c] > 0 else 1)))) if not sq else False)
    diag = dict(steps=idx, overrun=[bool(v) for v in overrun], lastsub=[float(v) for v in lastsub],
                masked_genuine=masked_genuine, abs_clip=[bool(v) for v in abs_clip])
    if not solve:
        return diag
    Qm = Q[:, :, :-1]
    beta = np.sqrt(np.sum((R.conj() * R).real, axis=0))
    out = np.zeros_like(B)
    for c in range(nc):
        Hc = Hm[c]
        HT = np.conj(Hc.T)
        largest = np.max(np.abs(Hc), -1) if sq else np.max(np.abs(Hc), 0)
        thresh = mfac * np.max(largest)
        margins.append(float(np.min(np.abs(largest - thresh) / max(float(thresh), 1e-300))) if thresh > 0 else 1.0)
        decisions.append((np.array(largest, dtype=np.longdouble), np.full(len(largest), thresh, dtype=np.longdouble)))
        pad = (largest < thresh) if fl["gmres_zero_residual_nan"] else (largest <= thresh)
        y = _ge_solve(HT @ Hc + np.diag(pad.astype(dtype)), HT[:, 0].copy()) * beta[c]
        y = np.where(pad, 0, y)
        out[:, c] = X0[:, c] + Qm[c] @ y
    diag.update(x=out, min_margin=min(margins) if margins else 1.0, decisions=decisions)
    return diag


def stability(case, flags):
    cplx = case["cplx"]
    B = case["B"]
    X0 = case["X0"] if case["X0"] is not None else np.zeros_like(B)
    try:
        with np.errstate(all="ignore"):
            lo = ref_gmres(case["A"], B, X0, case["m"], case["tol"], np.complex128 if cplx else np.float64, flags)
            hi = ref_gmres(case["A"], B, X0, case["m"], case["tol"], np.clongdouble if cplx else np.longdouble, flags)
    except Exception:
        return dict(same_steps=False, dev_x=np.inf, min_margin=0.0, steps=-1)
    out = dict(same_steps=lo["steps"] == hi["steps"], steps=lo["steps"], min_margin=min(lo["min_margin"], hi["min_margin"]))
    if not out["same_steps"] or not np.all(np.isfinite(hi["x"].astype(np.complex128))):
        out["dev_x"] = np.inf
        return out
    sc_ = np.max(np.abs(hi["x"]), axis=0)
    sc_ = np.where(sc_ == 0, 1.0, sc_)
    out["dev_x"] = float(np.max(np.max(np.abs(lo["x"] - hi["x"]), axis=0) / sc_))
    # every compared quantity (clip, stopping test, padding mask) must be determined far better than its distance to the
    # threshold: quantities that are rounding noise differ between the two precisions by their own size
    if len(lo["decisions"]) != len(hi["decisions"]):
        out["min_margin"] = 0.0
    else:
        for (vl, tl), (vh, th) in zip(lo["decisions"], hi["decisions"]):
            if vl.shape != vh.shape or np.any(np.abs(vl - vh) > 1e-3 * np.abs(vl - tl)):
                out["min_margin"] = 0.0
    return out
