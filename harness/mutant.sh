#!/bin/bash
# usage: harness/mutant.sh <Cxx> <file under cola/> <sed expression>   -- runs the check against a mutated scratch copy of cola
pid=$1; file=$2; expr=$3
d=$(mktemp -d /tmp/mut.XXXX); cp -r /repo/cola $d/cola
sed -i "$expr" $d/cola/$file
if diff -q /repo/cola/$file $d/cola/$file >/dev/null; then echo "MUTATION DID NOT APPLY"; rm -rf $d; exit 2; fi
cd /verif && COLA_REPO=$d PYTHONPATH=$d ./check $pid 2>&1 | grep -v "^KNOWN" | tail -4
rm -rf $d
