"""C20 helpers: index expressions (JSON <-> python objects <-> Coq terms), the independent numpy oracle for
indexing, the exhaustive slice pools, running the implementation, printing cases for coq/C20_Check.v."""
import re
import numpy as np
import shim  # noqa: F401
import trees as T
import opcases as O
import core

HEADER = ("From Coq Require Import ZArith List Bool Arith.\n"
          "From Core Require Import Base Kron Op ZIInst PySlice C20_GetItem C20_Check.\nImport ListNotations.\n")
ERRMAP = dict(IndexError="EIndex", AssertionError="EAssert", ValueError="EValue", AttributeError="EAttr",
              NotImplementedError="ENotImpl")
OTHERS = ("none", "ellipsis", "tuple3", "tuple1", "npint", "float")


# ------------------------------------------------------------------ index expressions
def py_comp(c):
    k = c[0]
    if k == "int":
        return int(c[1])
    if k == "slice":
        return slice(c[1], c[2], c[3])
    if k == "arr":
        return np.array(c[1], dtype=np.int64)
    if k == "list":
        return [int(x) for x in c[1]]
    raise AssertionError(c)


def py_ix(q):
    if q[0] == "one":
        return py_comp(q[1])
    if q[0] == "two":
        return (py_comp(q[1]), py_comp(q[2]))
    return dict(none=None, ellipsis=Ellipsis, tuple3=(0, 0, 0), tuple1=(0,), npint=np.int64(0), float=0.0)[q[1]]


def zopt(v):
    return "None" if v is None else f"(Some ({int(v)})%Z)"


def zl(xs):
    return "[" + ";".join(f"({int(x)})%Z" for x in xs) + "]"


def coq_comp(c):
    k = c[0]
    if k == "int":
        return f"(IInt ({int(c[1])})%Z)"
    if k == "slice":
        return f"(ISlice (mkslice {zopt(c[1])} {zopt(c[2])} {zopt(c[3])}))"
    if k == "arr":
        return f"(IArr {zl(c[1])})"
    if k == "list":
        return f"(IList {zl(c[1])})"
    raise AssertionError(c)


def coq_ix(q):
    if q[0] == "one":
        return f"(One {coq_comp(q[1])})"
    if q[0] == "two":
        return f"(Two {coq_comp(q[1])} {coq_comp(q[2])})"
    return "Other"


def listed(q):
    """the index forms the property's statement lists"""
    if q[0] == "one":
        return q[1][0] != "list"
    if q[0] == "two":
        a, b = q[1][0], q[2][0]
        if a == "list" and b == "list":
            return True
        if "list" in (a, b):
            return (a == "int") or (b == "int")
        return True
    return False


def is_sliced_form(q):
    if q[0] == "one":
        return q[1][0] in ("slice", "arr")
    if q[0] == "two":
        return q[1][0] in ("slice", "arr") and q[2][0] in ("slice", "arr")
    return False


# ------------------------------------------------------------------ independent oracle: numpy on the dense matrix
def axis_list(c, n):
    """index list selected on an axis of length n (numpy semantics); raises like numpy"""
    return np.arange(n)[py_comp(c)]


def np_index(M, q):
    """('err', name) | ('scalar', x) | ('vec', v) | ('mat', D, rows, cols) | ('skip',)"""
    m, n = M.shape
    try:
        if q[0] == "one":
            c = q[1]
            if c[0] == "int":
                return ("vec", M[py_comp(c)])
            rows = axis_list(c, m)
            return ("mat", M[np.ix_(rows, np.arange(n))], rows, np.arange(n))
        if q[0] == "two":
            a, b = q[1], q[2]
            if a[0] == "list" and b[0] == "list":
                return ("vec", M[np.array(a[1], dtype=np.int64), np.array(b[1], dtype=np.int64)].reshape(-1))   # numpy broadcasts; IndexError on mismatch
            if a[0] == "int" and b[0] == "int":
                return ("scalar", M[py_comp(a), py_comp(b)])
            if a[0] == "int":
                i = py_comp(a)
                if not (-m <= i < m):
                    raise IndexError("row")
                return ("vec", M[i][py_comp(b)])
            if b[0] == "int":
                j = py_comp(b)
                if not (-n <= j < n):
                    raise IndexError("col")
                return ("vec", M[:, j][py_comp(a)])
            rows, cols = axis_list(a, m), axis_list(b, n)
            return ("mat", M[np.ix_(rows, cols)], rows, cols)   # documented reading: A[rows, :][:, cols]
    except (IndexError, ValueError) as e:
        return ("err", type(e).__name__)
    return ("skip",)


# ------------------------------------------------------------------ slice pools
def slice_values(n):
    return [None] + list(range(-n - 1, n + 2))


def all_slices(n):
    v = slice_values(n)
    return [(a, b, c) for a in v for b in v for c in v]


class Pools:
    """every slice with start/stop/step in [-n-1, n+1] u {None} for n <= 5, handed out once each, random afterwards"""

    def __init__(self, rnd, nmax=5, passes=1):
        self.rnd = rnd
        self.nmax = nmax
        self.pool = {}
        for n in range(1, nmax + 1):
            p = []
            for _ in range(passes):
                q = all_slices(n)
                rnd.shuffle(q)
                p += q
            self.pool[n] = p
        self.handed = {n: 0 for n in range(1, nmax + 1)}

    def remaining(self, n):
        return len(self.pool.get(n, ()))

    def total_remaining(self):
        return sum(len(p) for p in self.pool.values())

    def rand_slice(self, n):
        r = self.rnd
        v = [None, None] + list(range(-n - 2, n + 3))
        st = [None, None, 1, -1, 2, -2] + list(range(-n - 1, n + 2))
        c = r.choice(st)
        if c == 0 and r.random() < 0.8:
            c = r.choice([1, -1, 2, -2, 3])
        return (r.choice(v), r.choice(v), c)

    def take(self, n):
        p = self.pool.get(n)
        if p:
            self.handed[n] += 1
            return p.pop()
        return self.rand_slice(n)


# ------------------------------------------------------------------ implementation side
def build_case(case):
    """the operator that is indexed: the tree itself; the tree with a (true) annotation declared on it; or the slice
    A[s1, s2] taken - through __getitem__ - from an annotated parent (two-level indexing)"""
    import cola
    two = case.get("two")
    if two:
        A = T.build(case["tree"]["a"])
        A = getattr(cola, two["ann"])(A)
        return A[slice(*two["s1"]), slice(*two["s2"])]
    A = T.build(case["tree"])
    if case.get("ann"):
        A = getattr(cola, case["ann"])(A)
    return A


def run_queries(case):
    """observations of the implementation on every query of one case (public API: A[...], .to_dense(), @)"""
    out = []
    try:
        A = build_case(case)
        try:
            case["tself"] = bool(A.T is A)     # transpose() returns the operator itself (isa(SelfAdjoint), real)
        except Exception:
            case["tself"] = False
    except Exception as e:
        return [dict(cls="build_raised", err=type(e).__name__ + ": " + str(e)[:200]) for _ in case["queries"]]
    for qd in case["queries"]:
        q = qd["ix"]
        o = {}
        try:
            r = A[py_ix(q)]
        except Exception as e:
            out.append(dict(cls="err", err=type(e).__name__, msg=str(e)[:120]))
            continue
        try:
            if hasattr(r, "to_dense") and hasattr(r, "shape") and not isinstance(r, np.ndarray):
                o["cls"] = "op"
                o["shape"] = [int(x) for x in r.shape]
                D = r.to_dense()
                o["dense_shape"] = list(D.shape)
                o["dense"] = T.to_gauss(np.asarray(D).reshape(r.shape))
                X = O.np_of(qd["X"], qd["xr"], qd["k"], qd["dx"])
                Y = r @ X
                o["res_shape"] = list(Y.shape)
                o["res"] = T.to_gauss(np.asarray(Y).reshape(r.shape[0], qd["k"]))
                y = r @ X[:, 0]
                o["vec_ok"] = bool(y.shape == (r.shape[0],) and np.array_equal(np.asarray(y), np.asarray(Y)[:, 0]))
            else:
                a = np.asarray(r)
                if a.ndim == 0:
                    o["cls"] = "scalar"
                    o["val"] = T.to_gauss(a.reshape(1))[0]
                elif a.ndim == 1:
                    o["cls"] = "vec"
                    o["val"] = T.to_gauss(a)
                else:
                    o["cls"] = "array%dd" % a.ndim
                    o["shape"] = list(a.shape)
        except Exception as e:
            o = dict(cls="use_raised", err=type(e).__name__ + ": " + str(e)[:200])
            if "tree_map() missing" in str(e):
                # harness limitation, not cola: shim.vmap cannot map over an axis of length 0 (empty slice of a BlockDiag/Kronecker
                # through the left product); the query is dropped and counted
                o = dict(cls="shim_limit", err=str(e)[:80])
        out.append(o)
    return out


def cplx_of(g):
    return complex(g[0], g[1])


def oracle_query(M, qd, o):
    """independent judgement on one query. Returns (fails: bool, why: str, npres)"""
    q = qd["ix"]
    w = np_index(M, q)
    if o["cls"] == "shim_limit":
        return False, "", ("skip",)
    if w[0] == "skip":
        if o["cls"] in ("build_raised", "use_raised"):
            return True, o["cls"], w
        return False, "", w
    if o["cls"] in ("build_raised", "use_raised"):
        return True, o["cls"] + " " + o.get("err", ""), w
    if w[0] == "err":
        if o["cls"] == "err":
            return False, "", w
        return (listed(q), "numpy raises %s, implementation returns a value" % w[1], w)
    if o["cls"] == "err":
        if not listed(q) and o["err"] == "NotImplementedError":
            return False, "", w
        return True, "implementation raises %s, numpy returns a value" % o["err"], w
    if not listed(q):
        return False, "", w
    if w[0] == "scalar":
        ok = o["cls"] == "scalar" and cplx_of(o["val"]) == complex(w[1])
        return (not ok), "scalar differs", w
    if w[0] == "vec":
        ok = o["cls"] == "vec" and len(o["val"]) == len(w[1]) and all(cplx_of(a) == complex(b) for a, b in zip(o["val"], w[1]))
        return (not ok), "vector differs", w
    if w[0] == "mat":
        if o["cls"] != "op":
            return True, "expected a sub-operator, got " + o["cls"], w
        D = w[1]
        bad = []
        if o["shape"] != list(D.shape) or o["dense_shape"] != list(D.shape):
            bad.append("shape")
        elif not np.array_equal(O.np_of(o["dense"], D.shape[0], D.shape[1], "complex128"), D):
            bad.append("to_dense")
        X = O.np_of(qd["X"], qd["xr"], qd["k"], "complex128")
        if D.shape[1] == qd["xr"]:
            Y = D @ X
            if o["res_shape"] != list(Y.shape) or not np.array_equal(O.np_of(o["res"], Y.shape[0], Y.shape[1], "complex128"), Y):
                bad.append("matmat")
            if not o.get("vec_ok"):
                bad.append("matvec")
        else:
            bad.append("operand rows")
        return bool(bad), ",".join(bad), w
    return False, "", w


# ------------------------------------------------------------------ Coq printing
def coq_obs(o, qd):
    c = o["cls"]
    if c == "err":
        return f"(OErr {ERRMAP[o['err']]})" if o["err"] in ERRMAP else "OOther"
    if c == "scalar":
        return f"(OScalar {T.zc(o['val'])})"
    if c == "vec":
        return f"(OVec {T.zrow(o['val'])})"
    if c == "op":
        m, n = o["shape"]
        return f"(OOp {m} {n} {T.zmat(o['dense'])} {qd['k']} {T.zmat(qd['X'])} {T.zmat(o['res'])})"
    return "OOther"


def coq_np(w):
    if w[0] == "skip":
        return "NSkip"
    if w[0] == "err":
        return "NErr"
    if w[0] == "scalar":
        return f"(NScalar {T.zc(T.to_gauss(np.asarray(w[1]).reshape(1))[0])})"
    if w[0] == "vec":
        return f"(NVec {T.zrow(T.to_gauss(np.asarray(w[1])))})"
    D = w[1]
    return f"(NMat {D.shape[0]} {D.shape[1]} {T.zmat(T.to_gauss(D))})"


def coq_flags(fl):
    b = lambda x: "true" if x else "false"
    return f"(mkflags {b(fl['row'])} {b(fl['dotA'])} {b(fl['cpu'])} {b(fl['empty'])} {b(fl['zip'])} {b(fl.get('tself'))})"


def coq_case(case, obs, nps, fl, keep):
    qs = ";\n   ".join("{| qi := %s; qo := %s; qn := %s |}" % (coq_ix(case["queries"][k]["ix"]), coq_obs(obs[k], case["queries"][k]), coq_np(nps[k]))
                       for k in keep)
    fl = dict(fl, tself=case.get("tself", False))
    return ("{| ce := " + T.coq(case["tree"]) + f"; cm := {case['m']}; cn := {case['n']}; cfl := {coq_flags(fl)};\n  cqs := [{qs}] |}}")


def eval_cases(name, terms, shard=40, timeout=900):
    """returns (dict case index -> failing query indices, n queries seen by Coq, error text or None)"""
    jobs = []
    for s in range(0, len(terms), shard):
        body = HEADER + "Definition cases : list case := [\n" + ";\n".join(terms[s:s + shard]) + "].\n"
        body += "Eval vm_compute in (length cases, nqueries cases, mism 0 cases).\n"
        jobs.append((f"{name}_{s // shard}", body))
    outs = core.coqc_many(jobs, timeout)
    bad, nq = {}, 0
    for si, (rc, out) in enumerate(outs):
        out = out.replace("%nat", "")
        m = re.search(r"=\s*\((\d+),\s*(\d+),\s*\[(.*?)\]\)\s*:", out, flags=re.S)
        if rc != 0 or not m:
            return None, 0, f"shard {si}: rc={rc}\n{out[-1500:]}"
        nq += int(m.group(2))
        for cm in re.finditer(r"\((\d+),\s*\[([\d;\s]*)\]\)", m.group(3)):
            bad[si * shard + int(cm.group(1))] = [int(x) for x in cm.group(2).replace("\n", " ").split(";") if x.strip()]
    return bad, nq, None


def eval_slices(name, entries, shard=1600, timeout=600):
    """entries: (n, a, b, c, list-or-None). Returns (failing entries, error)"""
    def term(e):
        n, a, b, c, want = e
        w = "None" if want is None else "(Some " + T.nlist(want) + ")"
        return f"({n}%nat, ({zopt(a)}, {zopt(b)}, {zopt(c)}), {w})"
    jobs = []
    for s in range(0, len(entries), shard):
        body = HEADER + "Definition cases : list slice_case := [\n" + ";\n".join(term(e) for e in entries[s:s + shard]) + "].\n"
        body += "Eval vm_compute in (length cases, failing check_slice 0 cases).\n"
        jobs.append((f"{name}_{s // shard}", body))
    outs = core.coqc_many(jobs, timeout)
    failing = []
    for si, (rc, out) in enumerate(outs):
        out = out.replace("%nat", "")
        m = re.search(r"=\s*\((\d+),\s*\[(.*?)\]\)", out, flags=re.S)
        if rc != 0 or not m:
            return None, f"slice shard {si}: rc={rc}\n{out[-1500:]}"
        if m.group(2).strip():
            failing += [entries[si * shard + int(x)] for x in m.group(2).replace("\n", " ").split(";") if x.strip()]
    return failing, None
