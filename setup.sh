#!/bin/bash
# Offline build of the Coq development (full .vo build) from files on disk only.
set -e
cd "$(dirname "$0")"
mkdir -p run/gen evidence
export PYTHONHASHSEED=0 PYTHONPATH=/repo PYTHONDONTWRITEBYTECODE=1
for t in harness/translate_*.py; do [ -e "$t" ] && /venv/bin/python "$t"; done
cd coq
coq_makefile -f _CoqProject -o Makefile
timeout 3000 make -k -j16 COQC="timeout 600 coqc"
